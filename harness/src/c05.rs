//! C05 — Quaternion, Basis3, Matrix3, Matrix4 describe the same rotation.
use crate::bigrat::BigRat;
use crate::core::*;
use crate::xq::Xq;
use cgmath::*;

fn chk(ok: bool, what: &str) -> Result<(), String> {
    if ok { Ok(()) } else { Err(what.to_string()) }
}
fn one() -> Xq { Xq::q(1, 1) }
fn zero() -> Xq { Xq::q(0, 1) }

/// which of the four branches of From<Matrix3> for Quaternion a unit quaternion's matrix takes
fn branch(q: &[BigRat]) -> &'static str {
    let sq = |i: usize| q[i].mul(&q[i]);
    let four = BigRat::int(4);
    let tr = four.mul(&sq(0)).sub(&BigRat::one()); // trace = 4w^2 - 1
    if !tr.is_neg() { "nt:trace>=0" }
    else if sq(1) > sq(2) && sq(1) > sq(3) { "nt:m00-largest" }
    else if sq(2) > sq(3) { "nt:m11-largest" }
    else { "nt:m22-largest" }
}

/// unit quaternion whose matrix takes the given branch (0..4)
fn unit_in_branch(ctx: &mut Ctx, b: usize) -> Vec<BigRat> {
    let names = ["nt:trace>=0", "nt:m00-largest", "nt:m11-largest", "nt:m22-largest"];
    loop {
        let q = ctx.unit4();
        if branch(&q) == names[b] {
            return q;
        }
    }
}

pub fn cases(ctx: &mut Ctx) {
    for round in 0..64 * ctx.scale {
        let q = unit_in_branch(ctx, round % 4);
        let p = ctx.unit4();
        let tag = branch(&q);
        let v = ctx.generic(3);
        ctx.case("m3_of_quat", tag, &q, &|| (), &|x| Matrix3::from(qn(x)));
        ctx.case("m4_of_quat", tag, &q, &|| (), &|x| Matrix4::from(qn(x)));
        ctx.case("basis3_of_quat", tag, &q, &|| (), &|x| Basis3::from(qn(x)));
        // the matrix of q, as exact rationals, fed to the matrix -> quaternion conversion
        crate::xq::reset();
        let qx: Vec<Xq> = q.iter().map(|r| Xq::new(r.clone())).collect();
        let m: Matrix3<Xq> = qn(&qx).into();
        let mut fl = vec![]; m.flat(&mut fl);
        let mr = rats(&fl);
        ctx.case("quat_of_m3", tag, &mr, &|| (), &|x| Quaternion::from(m3(x)));
        ctx.case("quat_of_basis3", tag, &mr, &|| (), &|x| Quaternion::from(b3(x)));
        let mv: Vec<BigRat> = mr.iter().chain(v.iter()).cloned().collect();
        ctx.case("m3_rotate_vector", tag, &mv, &|| (), &|x| m3(x) * v3(&x[9..]));
        ctx.case("basis3_rotate_vector", tag, &mv, &|| (), &|x| b3(x).rotate_vector(v3(&x[9..])));
        // composition of bases
        crate::xq::reset();
        let px: Vec<Xq> = p.iter().map(|r| Xq::new(r.clone())).collect();
        let mp: Matrix3<Xq> = qn(&px).into();
        let mut fl2 = vec![]; mp.flat(&mut fl2);
        let mm: Vec<BigRat> = mr.iter().chain(rats(&fl2).iter()).cloned().collect();
        ctx.case("basis3_mul", tag, &mm, &|| (), &|x| {
            b3(x) * b3(&x[9..])
        });
        // a non-unit quaternion also has a matrix (the conversion itself does not require |q| = 1)
        let g = ctx.generic(4);
        ctx.case("m3_of_quat", "generic", &g, &|| (), &|x| Matrix3::from(qn(x)));
        ctx.case("m4_of_quat", "generic", &g, &|| (), &|x| Matrix4::from(qn(x)));
    }
}

pub fn preds(ctx: &mut Ctx) {
    for round in 0..80 * ctx.scale {
        let q = unit_in_branch(ctx, round % 4);
        let p = ctx.unit4();
        let v = ctx.generic(3);
        let inp: Vec<BigRat> = q.iter().chain(p.iter()).chain(v.iter()).cloned().collect();
        let name = format!("rot-repr:{}", &branch(&q)[3..]);
        ctx.pred(&name, &inp, &|| (), &|x| {
            let (q, p, v) = (qn(x), qn(&x[4..]), v3(&x[8..11]));
            let m3q: Matrix3<Xq> = q.into();
            let m4q: Matrix4<Xq> = q.into();
            let b3q: Basis3<Xq> = q.into();
            let r = q.rotate_vector(v);
            chk(m3q * v == r, "Matrix3::from(q) rotates like q")?;
            chk(b3q.rotate_vector(v) == r, "Basis3::from(q) rotates like q")?;
            chk(m4q.transform_vector(v) == r, "Matrix4::from(q) rotates directions like q")?;
            chk(Matrix4::from(m3q) == m4q, "Matrix4::from(q) embeds Matrix3::from(q)")?;
            chk(m3q * m3q.transpose() == Matrix3::identity(), "orthonormal")?;
            chk(m3q.determinant() == one(), "determinant +1")?;
            let m3p: Matrix3<Xq> = p.into();
            chk(Matrix3::from(p * q) == m3p * m3q, "matrix of p*q = matrix of p times matrix of q")?;
            let b3p: Basis3<Xq> = p.into();
            chk(*(b3p * b3q).as_ref() == m3p * m3q && Basis3::from(p * q) == b3p * b3q, "Basis3 respects composition")?;
            let back: Quaternion<Xq> = m3q.into();
            chk(back == q || back == -q, "matrix -> quaternion returns q or -q")?;
            let back2: Quaternion<Xq> = b3q.into();
            chk(back2 == q || back2 == -q, "Basis3 -> quaternion returns q or -q")?;
            let _ = zero();
            Ok(())
        });
    }
}
