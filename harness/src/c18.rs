//! C18 — approximate-equality and predicate methods test every component.
use crate::bigrat::BigRat;
use crate::core::*;
use crate::xq::Xq;
use approx::{AbsDiffEq, RelativeEq, UlpsEq};
use cgmath::*;

fn chk(ok: bool, what: &str) -> Result<(), String> {
    if ok { Ok(()) } else { Err(what.to_string()) }
}
fn r(n: i128, d: i128) -> BigRat { BigRat::from_i(n, d) }

/// the three relations with explicit tolerances; x[0] = relation code, x[1] = eps, x[2] = max_relative, x[3] = max_ulps
fn rel<T: AbsDiffEq<Epsilon = Xq> + RelativeEq + UlpsEq>(x: &[Xq], a: &T, b: &T) -> bool {
    let code = x[0].rat().n.to_i128().unwrap();
    match code {
        0 => a.abs_diff_eq(b, x[1]),
        1 => a.relative_eq(b, x[1], x[2]),
        _ => a.ulps_eq(b, x[1], x[3].rat().n.to_i128().unwrap() as u32),
    }
}

fn eulr(x: &[Xq]) -> Euler<Rad<Xq>> { Euler::new(Rad(x[0]), Rad(x[1]), Rad(x[2])) }
fn dq(x: &[Xq]) -> Decomposed<Vector3<Xq>, Quaternion<Xq>> { Decomposed { scale: x[0], rot: qn(&x[1..5]), disp: v3(&x[5..8]) } }
fn db3(x: &[Xq]) -> Decomposed<Vector3<Xq>, Basis3<Xq>> { Decomposed { scale: x[0], rot: b3(&x[1..10]), disp: v3(&x[10..13]) } }
fn db2(x: &[Xq]) -> Decomposed<Vector2<Xq>, Basis2<Xq>> { Decomposed { scale: x[0], rot: b2(&x[1..5]), disp: v2(&x[5..7]) } }
fn rad1(x: &[Xq]) -> Rad<Xq> { Rad(x[0]) }
fn deg1(x: &[Xq]) -> Deg<Xq> { Deg(x[0]) }

macro_rules! cmp_cases {
    ($ctx:ident, $name:expr, $n:expr, $mk:ident) => {{
        let n: usize = $n;
        let eps = r(1, 1000);
        let mr = r(1, 100);
        for code in 0..3i128 {
            let head = vec![BigRat::int(code), eps.clone(), mr.clone(), BigRat::int(4)];
            for rep in 0..$ctx.scale.max(1) {
                let a = $ctx.generic(n);
                let _ = rep;
                // equal; every position perturbed just inside / far outside the tolerance; all positions different
                let mut variants: Vec<(Vec<BigRat>, &str)> = vec![(a.clone(), "nt:equal")];
                for i in 0..n {
                    let mut inside = a.clone(); inside[i] = inside[i].add(&r(1, 2000));
                    let mut outside = a.clone(); outside[i] = outside[i].add(&a[i].abs().add(&BigRat::int(10)));
                    let mut neg = a.clone(); neg[i] = neg[i].neg();
                    variants.push((inside, "nt:inside")); variants.push((outside, "nt:outside")); variants.push((neg, "nt:sign-flip"));
                }
                variants.push(($ctx.generic(n), "nt:all-different"));
                for (b, tag) in variants {
                    let inp: Vec<BigRat> = head.iter().chain(a.iter()).chain(b.iter()).cloned().collect();
                    $ctx.case($name, tag, &inp, &|| (), &|x| rel(x, &$mk(&x[4..4 + n]), &$mk(&x[4 + n..4 + 2 * n])));
                }
            }
        }
    }};
}

pub fn cases(ctx: &mut Ctx) {
    cmp_cases!(ctx, "v1_cmp", 1, v1); cmp_cases!(ctx, "v2_cmp", 2, v2); cmp_cases!(ctx, "v3_cmp", 3, v3); cmp_cases!(ctx, "v4_cmp", 4, v4);
    cmp_cases!(ctx, "p1_cmp", 1, p1); cmp_cases!(ctx, "p2_cmp", 2, p2); cmp_cases!(ctx, "p3_cmp", 3, p3);
    cmp_cases!(ctx, "m2_cmp", 4, m2); cmp_cases!(ctx, "m3_cmp", 9, m3); cmp_cases!(ctx, "m4_cmp", 16, m4);
    cmp_cases!(ctx, "quat_cmp", 4, qn); cmp_cases!(ctx, "rad_cmp", 1, rad1); cmp_cases!(ctx, "deg_cmp", 1, deg1);
    cmp_cases!(ctx, "euler_cmp", 3, eulr); cmp_cases!(ctx, "basis2_cmp", 4, b2); cmp_cases!(ctx, "basis3_cmp", 9, b3);
    cmp_cases!(ctx, "dq_cmp", 8, dq); cmp_cases!(ctx, "db3_cmp", 13, db3); cmp_cases!(ctx, "db2_cmp", 7, db2);
    // predicates: identity / zero / diagonal / symmetric matrices with exactly one perturbed element
    for n in 2..=4usize {
        let nn = n * n;
        let ident: Vec<BigRat> = (0..nn).map(|k| if k / n == k % n { BigRat::one() } else { BigRat::zero() }).collect();
        let zero: Vec<BigRat> = vec![BigRat::zero(); nn];
        let g = ctx.generic(nn);
        let diag: Vec<BigRat> = (0..nn).map(|k| if k / n == k % n { g[k].clone() } else { BigRat::zero() }).collect();
        let sym: Vec<BigRat> = (0..nn).map(|k| { let (c, rr) = (k / n, k % n); if c <= rr { g[c * n + rr].clone() } else { g[rr * n + c].clone() } }).collect();
        let bases: Vec<(&Vec<BigRat>, &str)> = vec![(&ident, "identity"), (&zero, "zero"), (&diag, "diagonal"), (&sym, "symmetric"), (&g, "generic")];
        for (base, bname) in bases {
            let mut variants: Vec<Vec<BigRat>> = vec![base.clone()];
            for i in 0..nn {
                for delta in [r(1, 1 << 30).mul(&r(1, 1 << 30)), r(1, 10000000), r(1, 100)] {
                    let mut v = base.clone(); v[i] = v[i].add(&delta); variants.push(v);
                }
            }
            for v in variants {
                let tag = format!("nt:{}", bname);
                match n {
                    2 => { ctx.case("m2_is_identity", &tag, &v, &|| (), &|x| m2(x).is_identity()); ctx.case("m2_is_zero", &tag, &v, &|| (), &|x| m2(x).is_zero());
                           ctx.case("m2_is_diagonal", &tag, &v, &|| (), &|x| m2(x).is_diagonal()); ctx.case("m2_is_symmetric", &tag, &v, &|| (), &|x| m2(x).is_symmetric());
                           ctx.case("m2_is_invertible", &tag, &v, &|| (), &|x| m2(x).is_invertible()); }
                    3 => { ctx.case("m3_is_identity", &tag, &v, &|| (), &|x| m3(x).is_identity()); ctx.case("m3_is_zero", &tag, &v, &|| (), &|x| m3(x).is_zero());
                           ctx.case("m3_is_diagonal", &tag, &v, &|| (), &|x| m3(x).is_diagonal()); ctx.case("m3_is_symmetric", &tag, &v, &|| (), &|x| m3(x).is_symmetric());
                           ctx.case("m3_is_invertible", &tag, &v, &|| (), &|x| m3(x).is_invertible()); }
                    _ => { ctx.case("m4_is_identity", &tag, &v, &|| (), &|x| m4(x).is_identity()); ctx.case("m4_is_zero", &tag, &v, &|| (), &|x| m4(x).is_zero());
                           ctx.case("m4_is_diagonal", &tag, &v, &|| (), &|x| m4(x).is_diagonal()); ctx.case("m4_is_symmetric", &tag, &v, &|| (), &|x| m4(x).is_symmetric());
                           ctx.case("m4_is_invertible", &tag, &v, &|| (), &|x| m4(x).is_invertible()); }
                }
            }
        }
    }
    // is_zero for vectors / quaternions / angles; is_perpendicular
    for k in 0..5usize {
        let mut z4 = vec![BigRat::zero(); 4];
        if k < 4 { z4[k] = r(1, 1 << 30).mul(&r(1, 1 << 30)); }
        ctx.case("v1_is_zero", "nt:zero-ish", &z4[..1], &|| (), &|x| v1(x).is_zero());
        ctx.case("v2_is_zero", "nt:zero-ish", &z4[..2], &|| (), &|x| v2(x).is_zero());
        ctx.case("v3_is_zero", "nt:zero-ish", &z4[..3], &|| (), &|x| v3(x).is_zero());
        ctx.case("v4_is_zero", "nt:zero-ish", &z4, &|| (), &|x| v4(x).is_zero());
        ctx.case("quat_is_zero", "nt:zero-ish", &z4, &|| (), &|x| qn(x).is_zero());
        ctx.case("rad_is_zero", "nt:zero-ish", &z4[..1], &|| (), &|x| Rad(x[0]).is_zero());
        let mut big = z4.clone(); if k < 4 { big[k] = r(1, 3); }
        ctx.case("v4_is_zero", "nt:nonzero", &big, &|| (), &|x| v4(x).is_zero());
        ctx.case("quat_is_zero", "nt:nonzero", &big, &|| (), &|x| qn(x).is_zero());
    }
    for _ in 0..6 * ctx.scale {
        let g = ctx.generic(8);
        ctx.case("v2_is_perpendicular", "generic", &g[..4], &|| (), &|x| v2(x).is_perpendicular(v2(&x[2..])));
        ctx.case("v3_is_perpendicular", "generic", &g[..6], &|| (), &|x| v3(x).is_perpendicular(v3(&x[3..])));
        ctx.case("v4_is_perpendicular", "generic", &g, &|| (), &|x| v4(x).is_perpendicular(v4(&x[4..])));
        // exactly perpendicular pairs
        let p = vec![g[0].clone(), g[1].clone(), g[1].neg(), g[0].clone()];
        ctx.case("v2_is_perpendicular", "nt:perpendicular", &p, &|| (), &|x| v2(x).is_perpendicular(v2(&x[2..])));
    }
}

// ---------- native f32 / f64: every position, just inside / just outside the ulps and absolute tolerances ----------
macro_rules! native_preds {
    ($ctx:ident, $S:ty, $name:expr, $n:expr, $build:expr, $T:ty) => {{
        let n: usize = $n;
        for _ in 0..3 * $ctx.scale {
            let base: Vec<$S> = (0..n).map(|_| ($ctx.rng.range(100, 4000) as $S) * 0.25 * if $ctx.rng.coin() { 1.0 } else { -1.0 }).collect();
            for i in 0..n {
                for ulps in [0i64, 3, 9] {
                    let mut other = base.clone();
                    let bits = other[i].to_bits();
                    other[i] = <$S>::from_bits((bits as i64 + ulps) as _);
                    let inp: Vec<BigRat> = base.iter().chain(other.iter()).map(|f| BigRat::from_f64(*f as f64)).collect();
                    let (b1, o1) = (base.clone(), other.clone());
                    $ctx.pred($name, &inp, &|| (), &|_| {
                        let build: &dyn Fn(&[$S]) -> $T = &$build;
                        let (a, b) = (build(&b1), build(&o1));
                        let mut all_u = true; let mut all_a = true; let mut all_r = true;
                        for k in 0..n {
                            all_u &= <$S as UlpsEq>::ulps_eq(&b1[k], &o1[k], <$S as AbsDiffEq>::default_epsilon(), 4);
                            all_a &= <$S as AbsDiffEq>::abs_diff_eq(&b1[k], &o1[k], 1e-3);
                            all_r &= <$S as RelativeEq>::relative_eq(&b1[k], &o1[k], <$S as AbsDiffEq>::default_epsilon(), 1e-6);
                        }
                        chk(a.ulps_eq(&b, <$S as AbsDiffEq>::default_epsilon(), 4) == all_u, "ulps_eq = all components ulps_eq")?;
                        chk(a.abs_diff_eq(&b, 1e-3) == all_a, "abs_diff_eq = all components abs_diff_eq")?;
                        chk(a.relative_eq(&b, <$S as AbsDiffEq>::default_epsilon(), 1e-6) == all_r, "relative_eq = all components relative_eq")?;
                        chk(a.ulps_eq(&a, <$S as AbsDiffEq>::default_epsilon(), 4) && (a.ulps_eq(&b, <$S as AbsDiffEq>::default_epsilon(), 4) == b.ulps_eq(&a, <$S as AbsDiffEq>::default_epsilon(), 4)), "reflexive and symmetric")
                    });
                }
            }
        }
    }};
}

pub fn preds(ctx: &mut Ctx) {
    macro_rules! both { ($S:ty, $sfx:expr) => {{
        native_preds!(ctx, $S, concat!("native:", $sfx, ":Vector2"), 2, |x: &[$S]| Vector2::new(x[0], x[1]), Vector2<$S>);
        native_preds!(ctx, $S, concat!("native:", $sfx, ":Vector3"), 3, |x: &[$S]| Vector3::new(x[0], x[1], x[2]), Vector3<$S>);
        native_preds!(ctx, $S, concat!("native:", $sfx, ":Vector4"), 4, |x: &[$S]| Vector4::new(x[0], x[1], x[2], x[3]), Vector4<$S>);
        native_preds!(ctx, $S, concat!("native:", $sfx, ":Point3"), 3, |x: &[$S]| Point3::new(x[0], x[1], x[2]), Point3<$S>);
        native_preds!(ctx, $S, concat!("native:", $sfx, ":Matrix2"), 4, |x: &[$S]| Matrix2::new(x[0], x[1], x[2], x[3]), Matrix2<$S>);
        native_preds!(ctx, $S, concat!("native:", $sfx, ":Matrix3"), 9, |x: &[$S]| Matrix3::new(x[0], x[1], x[2], x[3], x[4], x[5], x[6], x[7], x[8]), Matrix3<$S>);
        native_preds!(ctx, $S, concat!("native:", $sfx, ":Matrix4"), 16, |x: &[$S]| Matrix4::new(x[0], x[1], x[2], x[3], x[4], x[5], x[6], x[7], x[8], x[9], x[10], x[11], x[12], x[13], x[14], x[15]), Matrix4<$S>);
        native_preds!(ctx, $S, concat!("native:", $sfx, ":Quaternion"), 4, |x: &[$S]| Quaternion::new(x[0], x[1], x[2], x[3]), Quaternion<$S>);
        native_preds!(ctx, $S, concat!("native:", $sfx, ":Euler"), 3, |x: &[$S]| Euler::new(Rad(x[0]), Rad(x[1]), Rad(x[2])), Euler<Rad<$S>>);
        native_preds!(ctx, $S, concat!("native:", $sfx, ":Decomposed"), 8, |x: &[$S]| Decomposed { scale: x[0], rot: Quaternion::new(x[1], x[2], x[3], x[4]), disp: Vector3::new(x[5], x[6], x[7]) }, Decomposed<Vector3<$S>, Quaternion<$S>>);
    }}; }
    both!(f64, "f64");
    both!(f32, "f32");
    // is_finite: a non-finite value in each single position
    for pos in 0..16usize {
        for (bad, nm) in [(f64::NAN, "nan"), (f64::INFINITY, "inf"), (f64::NEG_INFINITY, "-inf")] {
            let inp = vec![BigRat::int(pos as i128)];
            let _ = nm;
            ctx.pred("native:is_finite", &inp, &|| (), &|_| {
                let mut x = [1.5f64; 16]; x[pos] = bad;
                chk(!Matrix4::new(x[0], x[1], x[2], x[3], x[4], x[5], x[6], x[7], x[8], x[9], x[10], x[11], x[12], x[13], x[14], x[15]).is_finite(), "Matrix4::is_finite")?;
                if pos < 9 { chk(!Matrix3::new(x[0], x[1], x[2], x[3], x[4], x[5], x[6], x[7], x[8]).is_finite(), "Matrix3::is_finite")?; }
                if pos < 4 { chk(!Matrix2::new(x[0], x[1], x[2], x[3]).is_finite() && !Vector4::new(x[0], x[1], x[2], x[3]).is_finite() && !Quaternion::new(x[0], x[1], x[2], x[3]).is_finite(), "Matrix2/Vector4/Quaternion::is_finite")?; }
                if pos < 3 { chk(!Vector3::new(x[0], x[1], x[2]).is_finite() && !Point3::new(x[0], x[1], x[2]).is_finite(), "Vector3/Point3::is_finite")?; }
                if pos < 2 { chk(!Vector2::new(x[0], x[1]).is_finite() && !Point2::new(x[0], x[1]).is_finite(), "Vector2/Point2::is_finite")?; }
                if pos < 1 { chk(!Vector1::new(x[0]).is_finite() && !Point1::new(x[0]).is_finite(), "Vector1/Point1::is_finite")?; }
                chk(Matrix4::from_value(1.5f64).is_finite() && Vector4::from_value(2.0f64).is_finite(), "finite values are finite")
            });
        }
    }
}
