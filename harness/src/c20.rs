//! C20 — serde (feature "serde"), through serde_json on f32 / f64 values.
use crate::bigrat::BigRat;
use crate::core::*;
use cgmath::*;
use serde::{de::DeserializeOwned, Serialize};
use serde_json::Value;

fn code(k: &str) -> i128 {
    match k { "x" => 1, "y" => 2, "z" => 3, "w" => 4, "v" => 5, "s" => 6, "scale" => 7, "rot" => 8, "disp" => 9, "mat" => 10, "fovy" => 11,
              "aspect" => 12, "near" => 13, "far" => 14, "left" => 15, "right" => 16, "bottom" => 17, "top" => 18, "height" => 19, _ => 99 }
}
/// numeric encoding of a JSON tree (see coq/Exec/RunC20.v)
fn enc(v: &Value, out: &mut Vec<BigRat>) -> Result<(), String> {
    match v {
        Value::Number(n) => { out.push(BigRat::zero()); out.push(BigRat::from_f64(n.as_f64().ok_or("number")?)); Ok(()) }
        Value::Object(m) => {
            out.push(BigRat::int(100 + m.len() as i128));
            let mut fs: Vec<(&String, &Value)> = m.iter().collect();
            fs.sort_by_key(|(k, _)| code(k));
            for (k, sub) in fs { out.push(BigRat::int(code(k))); enc(sub, out)?; }
            Ok(())
        }
        other => Err(format!("unexpected JSON node {:?}", other)),
    }
}
fn ser_case<T: Serialize>(ctx: &mut Ctx, f: &str, inp: Vec<f64>, v: &T) {
    let out = match serde_json::to_value(v) { Ok(j) => { let mut o = vec![]; match enc(&j, &mut o) { Ok(()) => Out::Q(o), Err(e) => Out::Panic(e) } } Err(e) => Out::Panic(e.to_string()) };
    ctx.cases.push(Case { f: f.to_string(), inp: inp.iter().map(|x| BigRat::from_f64(*x)).collect(), orc: Default::default(), out, tag: "nt:value".into() });
}
/// round trip through text, bit-for-bit
fn roundtrip<T: Serialize + DeserializeOwned + PartialEq + std::fmt::Debug>(ctx: &mut Ctx, name: &str, v: &T, bits: &dyn Fn(&T) -> Vec<u64>) {
    ctx.pred_evals += 1;
    let res = (|| -> Result<(), String> {
        let text = serde_json::to_string(v).map_err(|e| e.to_string())?;
        let back: T = serde_json::from_str(&text).map_err(|e| format!("deserialize failed: {} on {}", e, text))?;
        if bits(&back) != bits(v) { return Err(format!("round trip changed the value: {:?} -> {} -> {:?}", v, text, back)); }
        Ok(())
    })();
    if let Err(d) = res { ctx.pred_fails.push(PredFail { pred: format!("roundtrip:{}", name), inp: vec![], detail: d }); }
}

fn floats(ctx: &mut Ctx, n: usize, special: bool) -> Vec<f64> {
    let sp = [-0.0f64, 5e-324, 2.2250738585072014e-308, 1.7976931348623157e308, -1.7976931348623157e308, 0.1, 1.0 / 3.0, 123456789.123456789, -2.5e-7, 6.02214076e23];
    (0..n).map(|i| if special { sp[(ctx.rng.below(10) as usize + i) % 10] } else { (ctx.rng.range(-100000, 100000) as f64) / 64.0 + 0.013 * i as f64 }).collect()
}

pub fn cases(ctx: &mut Ctx) {
    for round in 0..12 * ctx.scale {
        let x = floats(ctx, 16, round % 3 == 2);
        ser_case(ctx, "ser_v1", x[..1].to_vec(), &Vector1::new(x[0]));
        ser_case(ctx, "ser_v2", x[..2].to_vec(), &Vector2::new(x[0], x[1]));
        ser_case(ctx, "ser_v3", x[..3].to_vec(), &Vector3::new(x[0], x[1], x[2]));
        ser_case(ctx, "ser_v4", x[..4].to_vec(), &Vector4::new(x[0], x[1], x[2], x[3]));
        ser_case(ctx, "ser_p1", x[..1].to_vec(), &Point1::new(x[0]));
        ser_case(ctx, "ser_p2", x[..2].to_vec(), &Point2::new(x[0], x[1]));
        ser_case(ctx, "ser_p3", x[..3].to_vec(), &Point3::new(x[0], x[1], x[2]));
        ser_case(ctx, "ser_m2", x[..4].to_vec(), &Matrix2::new(x[0], x[1], x[2], x[3]));
        ser_case(ctx, "ser_m3", x[..9].to_vec(), &Matrix3::new(x[0], x[1], x[2], x[3], x[4], x[5], x[6], x[7], x[8]));
        ser_case(ctx, "ser_m4", x[..16].to_vec(), &Matrix4::new(x[0], x[1], x[2], x[3], x[4], x[5], x[6], x[7], x[8], x[9], x[10], x[11], x[12], x[13], x[14], x[15]));
        ser_case(ctx, "ser_quat", x[..4].to_vec(), &Quaternion::new(x[0], x[1], x[2], x[3]));
        ser_case(ctx, "ser_rad", x[..1].to_vec(), &Rad(x[0]));
        ser_case(ctx, "ser_deg", x[..1].to_vec(), &Deg(x[0]));
        ser_case(ctx, "ser_euler_rad", x[..3].to_vec(), &Euler::new(Rad(x[0]), Rad(x[1]), Rad(x[2])));
        ser_case(ctx, "ser_euler_deg", x[..3].to_vec(), &Euler::new(Deg(x[0]), Deg(x[1]), Deg(x[2])));
        let q = Quaternion::new(x[1], x[2], x[3], x[4]);
        ser_case(ctx, "ser_dq", x[..8].to_vec(), &Decomposed { scale: x[0], rot: q, disp: Vector3::new(x[5], x[6], x[7]) });
        // Basis2/Basis3 have private fields: build through the public constructors, feed the model the matrix read back
        let fin = |v: f64| if v.abs() > 1e150 { 1.0 } else { v };
        let b3 = Basis3::from_quaternion(&Quaternion::new(fin(x[1]), fin(x[2]), fin(x[3]), fin(x[4]))); let m: &Matrix3<f64> = b3.as_ref(); let mf: &[f64; 9] = m.as_ref();
        ser_case(ctx, "ser_basis3", mf.to_vec(), &b3);
        let mut inp = vec![x[0]]; inp.extend_from_slice(mf); inp.extend_from_slice(&x[5..8]);
        ser_case(ctx, "ser_db3", inp, &Decomposed { scale: x[0], rot: b3, disp: Vector3::new(x[5], x[6], x[7]) });
        let b2: Basis2<f64> = Rotation2::from_angle(Rad(fin(x[0]) * 1e-3)); let m2: &Matrix2<f64> = b2.as_ref(); let m2f: &[f64; 4] = m2.as_ref();
        ser_case(ctx, "ser_basis2", m2f.to_vec(), &b2);
        let mut inp = vec![x[1]]; inp.extend_from_slice(m2f); inp.extend_from_slice(&x[5..7]);
        ser_case(ctx, "ser_db2", inp, &Decomposed { scale: x[1], rot: b2, disp: Vector2::new(x[5], x[6]) });
        ser_case(ctx, "ser_perspective_fov", x[..4].to_vec(), &PerspectiveFov { fovy: Rad(x[0]), aspect: x[1], near: x[2], far: x[3] });
        ser_case(ctx, "ser_perspective", x[..6].to_vec(), &Perspective { left: x[0], right: x[1], bottom: x[2], top: x[3], near: x[4], far: x[5] });
        ser_case(ctx, "ser_ortho", x[..6].to_vec(), &Ortho { left: x[0], right: x[1], bottom: x[2], top: x[3], near: x[4], far: x[5] });
        ser_case(ctx, "ser_planar_fov", x[..5].to_vec(), &PlanarFov { fovy: Rad(x[0]), aspect: x[1], height: x[2], near: x[3], far: x[4] });
    }
    // Decomposed documents: every permutation, every single omission, unknown and duplicated keys
    let perms: Vec<Vec<i128>> = vec![vec![7, 8, 9], vec![7, 9, 8], vec![8, 7, 9], vec![8, 9, 7], vec![9, 7, 8], vec![9, 8, 7]];
    let mut docs: Vec<(Vec<i128>, &str)> = perms.iter().map(|p| (p.clone(), "nt:permutation")).collect();
    for p in &perms { for drop in 0..3 { let mut d = p.clone(); d.remove(drop); docs.push((d, "nt:missing")); } }
    for p in &perms { for pos in 0..4 { let mut d = p.clone(); d.insert(pos, 99); docs.push((d, "nt:unknown")); } }
    for p in &perms { for dup in 0..3 { let mut d = p.clone(); d.push(p[dup]); docs.push((d.clone(), "nt:duplicate")); d.insert(0, p[dup]); docs.push((d, "nt:duplicate")); } }
    docs.push((vec![], "nt:empty"));
    docs.push((vec![7], "nt:missing")); docs.push((vec![8], "nt:missing")); docs.push((vec![9, 9], "nt:missing"));
    for (doc, tag) in docs {
        let vals = floats(ctx, 4 * doc.len() + 1, false);
        let mut inp: Vec<BigRat> = vec![];
        let mut text = String::from("{");
        let mut k = 0usize;
        for (i, key) in doc.iter().enumerate() {
            if i > 0 { text.push(','); }
            inp.push(BigRat::int(*key));
            match key {
                7 => { text.push_str(&format!("\"scale\":{:?}", vals[k])); inp.push(BigRat::from_f64(vals[k])); k += 1; }
                8 => { text.push_str(&format!("\"rot\":{{\"v\":{{\"x\":{:?},\"y\":{:?},\"z\":{:?}}},\"s\":{:?}}}", vals[k], vals[k + 1], vals[k + 2], vals[k + 3]));
                       for j in 0..4 { inp.push(BigRat::from_f64(vals[k + j])); } k += 4; }
                9 => { text.push_str(&format!("\"disp\":{{\"x\":{:?},\"y\":{:?},\"z\":{:?}}}", vals[k], vals[k + 1], vals[k + 2]));
                       for j in 0..3 { inp.push(BigRat::from_f64(vals[k + j])); } k += 3; }
                _ => { text.push_str(&format!("\"bogus\":{:?}", vals[k])); inp.push(BigRat::from_f64(vals[k])); k += 1; }
            }
        }
        text.push('}');
        let res: Result<Decomposed<Vector3<f64>, Quaternion<f64>>, _> = serde_json::from_str(&text);
        let out = match res {
            Ok(d) => Out::Q([d.scale, d.rot.s, d.rot.v.x, d.rot.v.y, d.rot.v.z, d.disp.x, d.disp.y, d.disp.z].iter().map(|f| BigRat::from_f64(*f)).collect()),
            Err(_) => Out::None,
        };
        ctx.cases.push(Case { f: "de_dq".into(), inp, orc: Default::default(), out, tag: tag.into() });
    }
}

pub fn preds(ctx: &mut Ctx) {
    let b64 = |v: &[f64]| -> Vec<u64> { v.iter().map(|f| f.to_bits()).collect() };
    let b32 = |v: &[f32]| -> Vec<u64> { v.iter().map(|f| f.to_bits() as u64).collect() };
    for round in 0..30 * ctx.scale {
        let x = floats(ctx, 16, round % 2 == 1);
        let y: Vec<f32> = x.iter().map(|f| { let g = *f as f32; if g.is_finite() { g } else { 1.5e-40 } }).collect();
        roundtrip(ctx, "Vector1<f64>", &Vector1::new(x[0]), &|v| b64(&[v.x]));
        roundtrip(ctx, "Vector2<f64>", &Vector2::new(x[0], x[1]), &|v| b64(&[v.x, v.y]));
        roundtrip(ctx, "Vector3<f64>", &Vector3::new(x[0], x[1], x[2]), &|v| b64(&[v.x, v.y, v.z]));
        roundtrip(ctx, "Vector4<f64>", &Vector4::new(x[0], x[1], x[2], x[3]), &|v| b64(&[v.x, v.y, v.z, v.w]));
        roundtrip(ctx, "Vector4<f32>", &Vector4::new(y[0], y[1], y[2], y[3]), &|v| b32(&[v.x, v.y, v.z, v.w]));
        roundtrip(ctx, "Point1<f64>", &Point1::new(x[0]), &|v| b64(&[v.x]));
        roundtrip(ctx, "Point2<f64>", &Point2::new(x[0], x[1]), &|v| b64(&[v.x, v.y]));
        roundtrip(ctx, "Point3<f64>", &Point3::new(x[0], x[1], x[2]), &|v| b64(&[v.x, v.y, v.z]));
        roundtrip(ctx, "Point3<f32>", &Point3::new(y[0], y[1], y[2]), &|v| b32(&[v.x, v.y, v.z]));
        roundtrip(ctx, "Matrix2<f64>", &Matrix2::new(x[0], x[1], x[2], x[3]), &|m| { let a: &[f64; 4] = m.as_ref(); b64(a) });
        roundtrip(ctx, "Matrix3<f64>", &Matrix3::new(x[0], x[1], x[2], x[3], x[4], x[5], x[6], x[7], x[8]), &|m| { let a: &[f64; 9] = m.as_ref(); b64(a) });
        roundtrip(ctx, "Matrix4<f64>", &Matrix4::new(x[0], x[1], x[2], x[3], x[4], x[5], x[6], x[7], x[8], x[9], x[10], x[11], x[12], x[13], x[14], x[15]), &|m| { let a: &[f64; 16] = m.as_ref(); b64(a) });
        roundtrip(ctx, "Matrix4<f32>", &Matrix4::new(y[0], y[1], y[2], y[3], y[4], y[5], y[6], y[7], y[8], y[9], y[10], y[11], y[12], y[13], y[14], y[15]), &|m| { let a: &[f32; 16] = m.as_ref(); b32(a) });
        roundtrip(ctx, "Quaternion<f64>", &Quaternion::new(x[0], x[1], x[2], x[3]), &|q| b64(&[q.s, q.v.x, q.v.y, q.v.z]));
        roundtrip(ctx, "Quaternion<f32>", &Quaternion::new(y[0], y[1], y[2], y[3]), &|q| b32(&[q.s, q.v.x, q.v.y, q.v.z]));
        roundtrip(ctx, "Rad<f64>", &Rad(x[0]), &|a| b64(&[a.0]));
        roundtrip(ctx, "Deg<f64>", &Deg(x[0]), &|a| b64(&[a.0]));
        roundtrip(ctx, "Deg<f32>", &Deg(y[0]), &|a| b32(&[a.0]));
        roundtrip(ctx, "Euler<Rad<f64>>", &Euler::new(Rad(x[0]), Rad(x[1]), Rad(x[2])), &|e| b64(&[e.x.0, e.y.0, e.z.0]));
        roundtrip(ctx, "Euler<Deg<f64>>", &Euler::new(Deg(x[0]), Deg(x[1]), Deg(x[2])), &|e| b64(&[e.x.0, e.y.0, e.z.0]));
        let q = Quaternion::new(x[1], x[2], x[3], x[4]);
        let fin = |v: f64| if v.abs() > 1e150 { 1.0 } else { v };
        let qf = Quaternion::new(fin(x[1]), fin(x[2]), fin(x[3]), fin(x[4]));
        roundtrip(ctx, "Basis3<f64>", &Basis3::from_quaternion(&qf), &|b| { let m: &Matrix3<f64> = b.as_ref(); let a: &[f64; 9] = m.as_ref(); b64(a) });
        let b2: Basis2<f64> = Rotation2::from_angle(Rad(fin(x[0]) * 1e-3));
        roundtrip(ctx, "Basis2<f64>", &b2, &|b| { let m: &Matrix2<f64> = b.as_ref(); let a: &[f64; 4] = m.as_ref(); b64(a) });
        roundtrip(ctx, "Decomposed<Vector3,Quaternion>", &Decomposed { scale: x[0], rot: q, disp: Vector3::new(x[5], x[6], x[7]) },
                  &|d| b64(&[d.scale, d.rot.s, d.rot.v.x, d.rot.v.y, d.rot.v.z, d.disp.x, d.disp.y, d.disp.z]));
        roundtrip(ctx, "Decomposed<Vector3,Basis3>", &Decomposed { scale: x[0], rot: Basis3::from_quaternion(&qf), disp: Vector3::new(x[5], x[6], x[7]) },
                  &|d| { let m: &Matrix3<f64> = d.rot.as_ref(); let a: &[f64; 9] = m.as_ref(); let mut v = vec![d.scale, d.disp.x, d.disp.y, d.disp.z]; v.extend_from_slice(a); b64(&v) });
        roundtrip(ctx, "Decomposed<Vector2,Basis2>", &Decomposed { scale: x[0], rot: b2, disp: Vector2::new(x[5], x[6]) },
                  &|d| { let m: &Matrix2<f64> = d.rot.as_ref(); let a: &[f64; 4] = m.as_ref(); let mut v = vec![d.scale, d.disp.x, d.disp.y]; v.extend_from_slice(a); b64(&v) });
        roundtrip(ctx, "PerspectiveFov<f64>", &PerspectiveFov { fovy: Rad(x[0]), aspect: x[1], near: x[2], far: x[3] }, &|p| b64(&[p.fovy.0, p.aspect, p.near, p.far]));
        roundtrip(ctx, "Perspective<f64>", &Perspective { left: x[0], right: x[1], bottom: x[2], top: x[3], near: x[4], far: x[5] }, &|p| b64(&[p.left, p.right, p.bottom, p.top, p.near, p.far]));
        roundtrip(ctx, "Ortho<f64>", &Ortho { left: x[0], right: x[1], bottom: x[2], top: x[3], near: x[4], far: x[5] }, &|p| b64(&[p.left, p.right, p.bottom, p.top, p.near, p.far]));
        roundtrip(ctx, "PlanarFov<f64>", &PlanarFov { fovy: Rad(x[0]), aspect: x[1], height: x[2], near: x[3], far: x[4] }, &|p| b64(&[p.fovy.0, p.aspect, p.height, p.near, p.far]));
        // integer scalars
        let iv: Vec<i64> = x.iter().map(|f| (*f as i64) % 100000).collect();
        roundtrip(ctx, "Vector3<i64>", &Vector3::new(iv[0], iv[1], iv[2]), &|v| vec![v.x as u64, v.y as u64, v.z as u64]);
        roundtrip(ctx, "Point2<i64>", &Point2::new(iv[0], iv[1]), &|v| vec![v.x as u64, v.y as u64]);
    }
}
