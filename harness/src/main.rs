//! cgverif: runs the real cgmath code at the exact scalar `Xq` (and natively) on
//! generated inputs and writes the observed behaviour as cases for the Coq model,
//! and evaluates executable statements of the properties on the implementation.
//!
//! usage: cgverif <Cnn> <scale> <seed> <outdir> [only-function]
#![allow(clippy::all)]
#![allow(dead_code)]
mod bigrat;
mod core;
mod sym;
mod xq;
mod c01;
mod c02;
mod c03;
mod c04;
mod c05;
mod c06;
mod c07;
mod c08;
mod c09;
mod c10;
mod c11;
mod c12;
mod c13;
mod c14;
mod c15;
mod c16;
mod swz_calls;
mod c17;
mod c18;
mod c19;
mod c20;

static LAST_PANIC: std::sync::Mutex<String> = std::sync::Mutex::new(String::new());

fn main() {
    let args: Vec<String> = std::env::args().collect();
    if args.len() < 5 {
        eprintln!("usage: cgverif <Cnn> <scale> <seed> <outdir> [only-function]");
        std::process::exit(2);
    }
    let prop = args[1].as_str();
    let scale: usize = args[2].parse().expect("scale");
    let seed: u64 = args[3].parse().expect("seed");
    let outdir = &args[4];
    // panics are expected and caught per case / per clause; the hook only remembers where the last one came from, so that a
    // panic of the implementation in a place where the harness does not expect one can still be reported with its location
    if std::env::var("VERIF_SHOW_PANIC").is_err() {
        std::panic::set_hook(Box::new(|info| {
            let loc = info.location().map(|l| format!("{}:{}", l.file(), l.line())).unwrap_or_default();
            let msg = if let Some(s) = info.payload().downcast_ref::<&str>() { s.to_string() }
                      else if let Some(s) = info.payload().downcast_ref::<String>() { s.clone() } else { String::new() };
            if let Ok(mut g) = LAST_PANIC.lock() { *g = format!("{} at {}", msg, loc); }
        }));
    }
    let mut ctx = core::Ctx::new(seed ^ 0xC0FFEE, scale);
    if args.len() > 5 && args[5] == "--sym" {
        ctx.sym = true;
        ctx.sym_preds_on = prop == "C17";
    } else if args.len() > 6 && args[5] == "--probe" {
        ctx.probes = Some(core::read_probes(&args[6]));
    } else if args.len() > 5 {
        ctx.only = Some(args[5].clone());
    }
    let run = std::panic::catch_unwind(std::panic::AssertUnwindSafe(|| match prop {
        "C01" => { c01::cases(&mut ctx); c01::preds(&mut ctx); }
        "C02" => { c02::cases(&mut ctx); c02::preds(&mut ctx); }
        "C04" => { c04::cases(&mut ctx); c04::preds(&mut ctx); }
        "C05" => { c05::cases(&mut ctx); c05::preds(&mut ctx); }
        "C06" => { c06::cases(&mut ctx); c06::preds(&mut ctx); }
        "C07" => { c07::cases(&mut ctx); c07::preds(&mut ctx); }
        "C08" => { c08::cases(&mut ctx); c08::preds(&mut ctx); }
        "C09" => { c09::cases(&mut ctx); c09::preds(&mut ctx); }
        "C10" => { c10::cases(&mut ctx); c10::preds(&mut ctx); }
        "C14" => { c14::cases(&mut ctx); c14::preds(&mut ctx); }
        "C15" => { c15::cases(&mut ctx); c15::preds(&mut ctx); }
        "C16" => { c16::cases(&mut ctx); c16::preds(&mut ctx); }
        "C17" => { c17::cases(&mut ctx); c17::preds(&mut ctx); }
        "C18" => { c18::cases(&mut ctx); c18::preds(&mut ctx); }
        "C20" => { c20::cases(&mut ctx); c20::preds(&mut ctx); }
        "C19" => { c19::cases(&mut ctx); c19::preds(&mut ctx); }
        "C13" => { c13::cases(&mut ctx); c13::preds(&mut ctx); }
        "C11" => { c11::cases(&mut ctx); c11::preds(&mut ctx); }
        "C12" => { c12::cases(&mut ctx); c12::preds(&mut ctx); }
        "C03" => { c03::cases(&mut ctx); c03::preds(&mut ctx); }
        _ => { eprintln!("unknown property {}", prop); std::process::exit(2); }
    }));
    if run.is_err() {
        // the implementation panicked outside every place where a panic is an expected outcome (e.g. a mutable view or an
        // index that must be valid): reported as a failed clause with the panic's message and location
        let what = LAST_PANIC.lock().map(|g| g.clone()).unwrap_or_default();
        ctx.pred_evals += 1;
        ctx.pred_fails.push(core::PredFail { pred: "no-unexpected-panic".to_string(), inp: vec![],
            detail: format!("the implementation panicked where the property requires a value: {}", what) });
    }
    std::fs::create_dir_all(outdir).unwrap();
    if ctx.sym {
        core::write_sym(&format!("{}/sym.jsonl", outdir), &ctx.sym_fns);
        core::write_sym_preds(&format!("{}/sym_preds.jsonl", outdir), &ctx.sym_preds);
        let paths: usize = ctx.sym_fns.iter().map(|f| f.paths.len()).sum();
        println!("sym functions={} paths={} unsupported={}", ctx.sym_fns.len(), paths, ctx.sym_fns.iter().filter(|f| f.unsupported.is_some()).count());
        return;
    }
    core::write_cases(&format!("{}/cases.jsonl", outdir), &ctx.cases);
    core::write_preds(&format!("{}/preds.jsonl", outdir), ctx.pred_evals, &ctx.pred_fails);
    println!("cases={} pred_evals={} pred_fails={}", ctx.cases.len(), ctx.pred_evals, ctx.pred_fails.len());
}
