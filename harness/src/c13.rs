//! C13 — Rad / Deg (src/angle.rs, Angle defaults of src/structure.rs).
use crate::bigrat::BigRat;
use crate::core::*;
use crate::xq::{self, Xq};
use cgmath::*;
use num_traits::Float;

fn chk(ok: bool, what: String) -> Result<(), String> {
    if ok { Ok(()) } else { Err(what) }
}
fn q(n: i128, d: i128) -> BigRat { BigRat::from_i(n, d) }

/// angles for the modular clauses, in units of the full turn `t`: huge, tiny, negative, exact multiples, around the half turn
fn modular_angles(ctx: &mut Ctx, t: &BigRat) -> Vec<BigRat> {
    let mut v = vec![];
    let g = ctx.generic(6);
    for x in &g { v.push(x.clone()); }                                  // small generic numbers (a fraction of a radian / a few degrees)
    for x in &g { v.push(x.mul(t)); }                                   // generic multiples of the turn (many turns, both signs)
    for k in [-3i128, -1, 0, 1, 2, 5] { v.push(t.mul(&BigRat::int(k))); }      // exact multiples
    for k in [-3i128, -1, 1, 3] { v.push(t.mul(&q(k, 2))); }                   // exactly on the half turn
    for k in [-5i128, -1, 1, 7] { v.push(t.mul(&q(k, 4))); }                   // quarter turns
    let tiny = q(1, 1i128 << 80);
    for s in [-1i128, 1] {
        v.push(tiny.mul(&BigRat::int(s)));                                  // tiny negative / positive
        v.push(t.add(&tiny.mul(&BigRat::int(s))));                          // just around the full turn
        v.push(t.mul(&q(1, 2)).add(&tiny.mul(&BigRat::int(s))));             // just around the half turn
        v.push(t.mul(&q(-1, 2)).add(&tiny.mul(&BigRat::int(s))));
    }
    v.push(t.mul(&BigRat::int(1i128 << 70)).add(&g[0]));                 // astronomically many turns
    v.push(t.mul(&BigRat::int(-(1i128 << 70))).add(&g[1]));
    v
}

fn tag_of(a: &BigRat, t: &BigRat) -> &'static str {
    if a.is_neg() { if a.abs() < *t { "nt:negative" } else { "nt:negative-many-turns" } }
    else if a.abs() < *t { "nt:within-turn" } else { "nt:many-turns" }
}

macro_rules! unit_cases {
    ($ctx:ident, $A:ident, $sfx:expr, $turn:expr) => {{
        let nm = |s: &str| format!("{}{}", s, $sfx);
        let none = || {};
        let e: Vec<BigRat> = vec![];
        $ctx.case(&nm("full_turn"), "nt:const", &e, &none, &|_| $A::<Xq>::full_turn());
        $ctx.case(&nm("turn_div_2"), "nt:const", &e, &none, &|_| $A::<Xq>::turn_div_2());
        $ctx.case(&nm("turn_div_3"), "nt:const", &e, &none, &|_| $A::<Xq>::turn_div_3());
        $ctx.case(&nm("turn_div_4"), "nt:const", &e, &none, &|_| $A::<Xq>::turn_div_4());
        $ctx.case(&nm("turn_div_6"), "nt:const", &e, &none, &|_| $A::<Xq>::turn_div_6());
        let t: BigRat = $turn;
        let angles = modular_angles($ctx, &t);
        for (i, a) in angles.iter().enumerate() {
            let tg = tag_of(a, &t);
            let one = vec![a.clone()];
            $ctx.case(&nm("normalize"), tg, &one, &none, &|x| $A(x[0]).normalize());
            $ctx.case(&nm("normalize_signed"), tg, &one, &none, &|x| $A(x[0]).normalize_signed());
            $ctx.case(&nm("opposite"), tg, &one, &none, &|x| $A(x[0]).opposite());
            $ctx.case(&nm("to_rad"), tg, &one, &none, &|x| Rad::from($A(x[0])));
            $ctx.case(&nm("of_rad"), tg, &one, &none, &|x| { let r: $A<Xq> = Rad(x[0]).into(); r });
            $ctx.case(&nm("neg"), tg, &one, &none, &|x| -$A(x[0]));
            let b = &angles[(i * 7 + 3) % angles.len()];
            let two = vec![a.clone(), b.clone()];
            $ctx.case(&nm("bisect"), tg, &two, &none, &|x| $A(x[0]).bisect($A(x[1])));
            $ctx.case(&nm("add"), tg, &two, &none, &|x| $A(x[0]) + $A(x[1]));
            $ctx.case(&nm("sub"), tg, &two, &none, &|x| $A(x[0]) - $A(x[1]));
            $ctx.case(&nm("mul_s"), tg, &two, &none, &|x| $A(x[0]) * x[1]);
            if !b.is_zero() {
                $ctx.case(&nm("div_s"), tg, &two, &none, &|x| $A(x[0]) / x[1]);
                $ctx.case(&nm("div"), tg, &two, &none, &|x| $A(x[0]) / $A(x[1]));
                $ctx.case(&nm("rem"), tg, &two, &none, &|x| $A(x[0]) % $A(x[1]));
            }
        }
        // bisect on structured pairs: both orders, across the 0 / full-turn seam, opposite angles, more than half a turn apart
        for (n1, n2) in [(0i128, 90i128), (90, 0), (350, 20), (20, 350), (10, 200), (200, 10), (0, 180), (180, 0), (45, 225), (-30, 30), (720, 90), (1, 359), (359, 1), (100, 100)] {
            let two = vec![t.mul(&q(n1, 360)), t.mul(&q(n2, 360))];
            $ctx.case(&nm("bisect"), "nt:structured-pair", &two, &none, &|x| $A(x[0]).bisect($A(x[1])));
        }
        for n in [0usize, 1, 2, 5, 9] {
            let l: Vec<BigRat> = angles.iter().take(n).cloned().collect();
            $ctx.case(&nm("sum"), "nt:by-value", &l, &none, &|x| x.iter().map(|a| $A(*a)).sum::<$A<Xq>>());
            let l2: Vec<BigRat> = angles.iter().rev().take(n).cloned().collect();
            $ctx.case(&nm("sum"), "nt:by-ref", &l2, &none, &|x| { let v: Vec<$A<Xq>> = x.iter().map(|a| $A(*a)).collect(); v.iter().sum::<$A<Xq>>() });
        }
    }};
}

macro_rules! trig_cases {
    ($ctx:ident, $A:ident, $sfx:expr, $th:expr, $setup:expr, $degenerate:expr) => {{
        let nm = |s: &str| format!("{}{}", s, $sfx);
        let one = vec![$th.clone()];
        $ctx.case(&nm("sin"), "nt:lattice", &one, $setup, &|x| $A(x[0]).sin());
        $ctx.case(&nm("cos"), "nt:lattice", &one, $setup, &|x| $A(x[0]).cos());
        $ctx.case(&nm("sin_cos"), "nt:lattice", &one, $setup, &|x| $A(x[0]).sin_cos());
        if !$degenerate {
            $ctx.case(&nm("tan"), "nt:lattice", &one, $setup, &|x| $A(x[0]).tan());
            $ctx.case(&nm("csc"), "nt:lattice", &one, $setup, &|x| $A(x[0]).csc());
            $ctx.case(&nm("sec"), "nt:lattice", &one, $setup, &|x| $A(x[0]).sec());
            $ctx.case(&nm("cot"), "nt:lattice", &one, $setup, &|x| $A(x[0]).cot());
        }
    }};
}

macro_rules! inverse_cases {
    ($ctx:ident, $A:ident, $sfx:expr, $s:expr, $c:expr, $tag:expr, $setup:expr) => {{
        let nm = |s: &str| format!("{}{}", s, $sfx);
        $ctx.case(&nm("asin"), $tag, &vec![$s.clone()], $setup, &|x| $A::<Xq>::asin(x[0]));
        $ctx.case(&nm("acos"), $tag, &vec![$c.clone()], $setup, &|x| $A::<Xq>::acos(x[0]));
        if !$c.is_zero() {
            $ctx.case(&nm("atan"), $tag, &vec![$s.div(&$c)], $setup, &|x| $A::<Xq>::atan(x[0]));
        }
        let r = q(7, 3);
        $ctx.case(&nm("atan2"), $tag, &vec![$s.mul(&r), $c.mul(&r)], $setup, &|x| $A::<Xq>::atan2(x[0], x[1]));
    }};
}

pub fn cases(ctx: &mut Ctx) {
    // constants at the native float types
    let c = |f: &str, v: f64| Case { f: f.to_string(), inp: vec![], orc: Default::default(), out: Out::Q(vec![BigRat::from_f64(v)]), tag: "nt:const".into() };
    ctx.cases.push(c("f32_full_turn", Rad::<f32>::full_turn().0 as f64));
    ctx.cases.push(c("f32_deg_per_rad", Deg::from(Rad(1.0f32)).0 as f64));
    ctx.cases.push(c("f32_rad_per_deg", Rad::from(Deg(1.0f32)).0 as f64));
    ctx.cases.push(c("f32_full_turn_deg", Deg::<f32>::full_turn().0 as f64));
    ctx.cases.push(c("f64_full_turn", Rad::<f64>::full_turn().0));
    ctx.cases.push(c("f64_deg_per_rad", Deg::from(Rad(1.0f64)).0));
    ctx.cases.push(c("f64_rad_per_deg", Rad::from(Deg(1.0f64)).0));
    ctx.cases.push(c("f64_full_turn_deg", Deg::<f64>::full_turn().0));

    let two_pi = BigRat::from_f64(std::f64::consts::PI * 2.0);
    for _ in 0..ctx.scale {
        unit_cases!(ctx, Rad, "", two_pi.clone());
        unit_cases!(ctx, Deg, "_deg", BigRat::int(360));
    }
    // trigonometry on the rational lattice; Deg arguments are the lattice angle divided by cast(pi/180), so that the
    // conversion lands on the lattice exactly
    let rpd = BigRat::from_f64(std::f64::consts::PI / 180.0);
    for _ in 0..10 * ctx.scale {
        let (tn, td) = ctx.base_t();
        xq::reset();
        let base = xq::set_base_t(tn, td);
        let setup = move || { xq::set_base_t(tn, td); };
        let k = { let k = ctx.rng.range(-6, 6); if k == 0 { 2 } else { k } };
        let j = ctx.rng.range(-3, 3);
        let th = base.v.mul(&BigRat::int(k as i128)).add(&xq::half_pi().mul(&BigRat::int(j as i128)));
        trig_cases!(ctx, Rad, "", th, &setup, false);
        let d = th.div(&rpd);
        trig_cases!(ctx, Deg, "_deg", d, &setup, false);
        // pure quarter turns: sin / cos are exactly 0 and +-1 there
        let qt = xq::half_pi().mul(&BigRat::int(j as i128));
        trig_cases!(ctx, Rad, "", qt, &setup, true);
        let dq = qt.div(&rpd);
        trig_cases!(ctx, Deg, "_deg", dq, &setup, true);
        // inverse functions at the sine / cosine of a lattice angle (answered from the lattice, principal range)
        xq::reset(); xq::set_base_t(tn, td);
        let (s, c) = { let (s, c) = Xq::new(th.clone()).sin_cos(); (s.rat(), c.rat()) };
        inverse_cases!(ctx, Rad, "", s, c, "nt:lattice", &setup);
        inverse_cases!(ctx, Deg, "_deg", s, c, "nt:lattice", &setup);
        // and at generic arguments (answered with the exact value of the f64 libm result)
        let g = ctx.generic(2);
        let (gs, gc) = (g[0].div(&BigRat::int(13)), g[1].div(&BigRat::int(13)));
        let fsetup = || { xq::set_float_fallback(true); };
        inverse_cases!(ctx, Rad, "", gs, gc, "nt:generic", &fsetup);
        inverse_cases!(ctx, Deg, "_deg", gs, gc, "nt:generic", &fsetup);
    }
}

// ---------------------------------------------------------------- predicates
macro_rules! unit_preds {
    ($ctx:ident, $A:ident, $name:expr, $turn:expr) => {{
        let none = || {};
        let t: BigRat = $turn;
        let angles = modular_angles($ctx, &t);
        let e: Vec<BigRat> = vec![];
        $ctx.pred(&format!("{}:turn_div_k*k=full_turn", $name), &e, &none, &|_| {
            let f = $A::<Xq>::full_turn();
            chk($A::<Xq>::turn_div_2() * Xq::q(2, 1) == f && $A::<Xq>::turn_div_3() * Xq::q(3, 1) == f
                && $A::<Xq>::turn_div_4() * Xq::q(4, 1) == f && $A::<Xq>::turn_div_6() * Xq::q(6, 1) == f, "turn_div_k * k != full_turn".into())
        });
        for (i, a) in angles.iter().enumerate() {
            let one = vec![a.clone()];
            $ctx.pred(&format!("{}:normalize in [0,T) and congruent", $name), &one, &none, &|x| {
                let f = $A::<Xq>::full_turn().0;
                let n = $A(x[0]).normalize().0;
                chk(n >= Xq::q(0, 1) && n < f, format!("normalize({:?}) = {:?} outside [0, T)", x[0], n))?;
                chk(((x[0] - n) / f).rat().is_int(), format!("normalize({:?}) = {:?} is not a whole number of turns away", x[0], n))
            });
            $ctx.pred(&format!("{}:normalize_signed in (-T/2,T/2] and congruent", $name), &one, &none, &|x| {
                let f = $A::<Xq>::full_turn().0;
                let h = f / Xq::q(2, 1);
                let n = $A(x[0]).normalize_signed().0;
                chk(n > -h && n <= h, format!("normalize_signed({:?}) = {:?} outside (-T/2, T/2]", x[0], n))?;
                chk(((x[0] - n) / f).rat().is_int(), format!("normalize_signed({:?}) = {:?} is not a whole number of turns away", x[0], n))
            });
            $ctx.pred(&format!("{}:opposite = normalize(a + T/2)", $name), &one, &none, &|x| {
                let o = $A(x[0]).opposite();
                let r = ($A(x[0]) + $A::<Xq>::turn_div_2()).normalize();
                chk(o == r, format!("opposite({:?}) = {:?} but normalize(a + T/2) = {:?}", x[0], o.0, r.0))?;
                let f = $A::<Xq>::full_turn().0;
                chk(((o.0 - x[0] - f / Xq::q(2, 1)) / f).rat().is_int(), "opposite is not half a turn away".into())
            });
            let b = &angles[(i * 5 + 1) % angles.len()];
            let two = vec![a.clone(), b.clone()];
            $ctx.pred(&format!("{}:bisect is midway", $name), &two, &none, &|x| {
                let f = $A::<Xq>::full_turn().0;
                let m = $A(x[0]).bisect($A(x[1]));
                let da = ($A(x[0]) - m).normalize_signed().0;
                let db = ($A(x[1]) - m).normalize_signed().0;
                chk(m.0 >= Xq::q(0, 1) && m.0 < f, format!("bisect = {:?} outside [0, T)", m.0))?;
                chk(da == -db, format!("bisect({:?}, {:?}) = {:?}: signed distances {:?} and {:?} are not opposite", x[0], x[1], m.0, da, db))?;
                let qt = f / Xq::q(4, 1);
                chk(da <= qt && da >= -qt, format!("bisect({:?}, {:?}) = {:?} is {:?} away from a (more than a quarter turn)", x[0], x[1], m.0, da))
            });
        }
    }};
}

macro_rules! native_preds {
    ($ctx:ident, $S:ident, $name:expr) => {{
        let eps = $S::EPSILON;
        // range membership on boundary sweeps
        let mut xs: Vec<$S> = vec![0.0, -0.0, $S::MIN_POSITIVE, -$S::MIN_POSITIVE, $S::MIN_POSITIVE / 4.0, -$S::MIN_POSITIVE / 4.0,
                                   -eps, eps, -eps * eps, 1.0e-30, -1.0e-30, 1.0e30, -1.0e30, $S::MAX, $S::MIN];
        for base in [360.0 as $S, 180.0, -180.0, -360.0, 720.0, (std::f64::consts::PI * 2.0) as $S, std::f64::consts::PI as $S,
                     -(std::f64::consts::PI as $S), -((std::f64::consts::PI * 2.0) as $S), 90.0, 1.0] {
            let mut up = base; let mut dn = base;
            for _ in 0..3 { xs.push(up); xs.push(dn); up = next_up(up as f64, stringify!($S)) as $S; dn = next_dn(dn as f64, stringify!($S)) as $S; }
        }
        for _ in 0..40 * $ctx.scale {
            let m = ($ctx.rng.range(-1_000_000, 1_000_000) as $S) / 997.0;
            let e = $ctx.rng.range(-20, 20) as i32;
            xs.push(m * (2.0 as $S).powi(e));
        }
        for &x in &xs {
            $ctx.pred_evals += 4;
            let mut fail = |what: String| $ctx.pred_fails.push(PredFail { pred: format!("native-{}:range", $name), inp: vec![BigRat::from_f64(x as f64)], detail: what });
            let (fr, fd) = (Rad::<$S>::full_turn().0, Deg::<$S>::full_turn().0);
            let n = Rad(x).normalize().0;   if !(n >= 0.0 && n <= fr) { fail(format!("Rad({:e}).normalize() = {:e} outside [0, full turn]", x, n)); }
            let n = Deg(x).normalize().0;   if !(n >= 0.0 && n <= fd) { fail(format!("Deg({:e}).normalize() = {:e} outside [0, full turn]", x, n)); }
            let n = Rad(x).normalize_signed().0; if !(n >= -fr / 2.0 && n <= fr / 2.0) { fail(format!("Rad({:e}).normalize_signed() = {:e} outside [-half, half]", x, n)); }
            let n = Deg(x).normalize_signed().0; if !(n >= -fd / 2.0 && n <= fd / 2.0) { fail(format!("Deg({:e}).normalize_signed() = {:e} outside [-half, half]", x, n)); }
        }
        // conversion round trip within 4 eps (normal range, no overflow)
        for _ in 0..200 * $ctx.scale {
            let m = 1.0 + ($ctx.rng.below(1 << 23) as $S) / ((1u32 << 23) as $S);
            let e = $ctx.rng.range(-60, 60) as i32;
            let x = m * (2.0 as $S).powi(e) * if $ctx.rng.coin() { 1.0 } else { -1.0 };
            $ctx.pred_evals += 2;
            let back1 = Deg::from(Rad::from(Deg(x))).0;
            let back2 = Rad::from(Deg::from(Rad(x))).0;
            for (w, b) in [("Deg->Rad->Deg", back1), ("Rad->Deg->Rad", back2)] {
                let rel = BigRat::from_f64(b as f64).sub(&BigRat::from_f64(x as f64)).abs().div(&BigRat::from_f64(x as f64).abs());
                if rel > BigRat::from_f64(4.0 * eps as f64) {
                    $ctx.pred_fails.push(PredFail { pred: format!("native-{}:roundtrip", $name), inp: vec![BigRat::from_f64(x as f64)], detail: format!("{} of {:e} gives {:e}: relative error above 4 eps", w, x, b) });
                }
            }
        }
        // wiring of trigonometry: bit-for-bit what the scalar functions give on the radian measure
        let rpd: $S = num_traits::cast(std::f64::consts::PI / 180.0).unwrap();
        let dpr: $S = num_traits::cast(180.0 / std::f64::consts::PI).unwrap();
        for _ in 0..60 * $ctx.scale {
            let x = ($ctx.rng.range(-4_000_000, 4_000_000) as $S) / 9973.0;
            let u = ($ctx.rng.range(-1000, 1000) as $S) / 1000.0;
            let w = ($ctx.rng.range(-1000, 1000) as $S) / 7.0;
            $ctx.pred_evals += 1;
            let same = |a: $S, b: $S| a.to_bits() == b.to_bits() || (a.is_nan() && b.is_nan());
            let r = x * rpd;
            let ok = same(Rad(x).sin(), x.sin()) && same(Rad(x).cos(), x.cos()) && same(Rad(x).tan(), x.tan())
                && same(Rad(x).sin_cos().0, x.sin_cos().0) && same(Rad(x).sin_cos().1, x.sin_cos().1)
                && same(Rad(x).csc(), x.sin().recip()) && same(Rad(x).sec(), x.cos().recip()) && same(Rad(x).cot(), x.tan().recip())
                && same(Deg(x).sin(), r.sin()) && same(Deg(x).cos(), r.cos()) && same(Deg(x).tan(), r.tan())
                && same(Deg(x).sin_cos().0, r.sin_cos().0) && same(Deg(x).sin_cos().1, r.sin_cos().1)
                && same(Deg(x).csc(), r.sin().recip()) && same(Deg(x).sec(), r.cos().recip()) && same(Deg(x).cot(), r.tan().recip())
                && same(Rad::<$S>::asin(u).0, u.asin()) && same(Rad::<$S>::acos(u).0, u.acos()) && same(Rad::<$S>::atan(w).0, w.atan())
                && same(Rad::<$S>::atan2(u, w).0, u.atan2(w))
                && same(Deg::<$S>::asin(u).0, u.asin() * dpr) && same(Deg::<$S>::acos(u).0, u.acos() * dpr) && same(Deg::<$S>::atan(w).0, w.atan() * dpr)
                && same(Deg::<$S>::atan2(u, w).0, u.atan2(w) * dpr);
            if !ok {
                $ctx.pred_fails.push(PredFail { pred: format!("native-{}:trig-wiring", $name), inp: vec![BigRat::from_f64(x as f64), BigRat::from_f64(u as f64), BigRat::from_f64(w as f64)],
                    detail: format!("a trigonometric function of Rad/Deg({:e}) (or an inverse at {:e}, {:e}) is not the scalar function of the radian measure", x, u, w) });
            }
        }
    }};
}

fn next_up(x: f64, ty: &str) -> f64 {
    if ty == "f32" { let y = x as f32; let b = y.to_bits(); (if y >= 0.0 { f32::from_bits(b + 1) } else { f32::from_bits(b - 1) }) as f64 }
    else { let b = x.to_bits(); if x >= 0.0 { f64::from_bits(b + 1) } else { f64::from_bits(b - 1) } }
}
fn next_dn(x: f64, ty: &str) -> f64 {
    if ty == "f32" { let y = x as f32; let b = y.to_bits(); (if y > 0.0 { f32::from_bits(b - 1) } else { f32::from_bits(b + 1) }) as f64 }
    else { let b = x.to_bits(); if x > 0.0 { f64::from_bits(b - 1) } else { f64::from_bits(b + 1) } }
}

pub fn preds(ctx: &mut Ctx) {
    let two_pi = BigRat::from_f64(std::f64::consts::PI * 2.0);
    for _ in 0..2 * ctx.scale {
        unit_preds!(ctx, Rad, "Rad", two_pi.clone());
        unit_preds!(ctx, Deg, "Deg", BigRat::int(360));
    }
    native_preds!(ctx, f64, "f64");
    native_preds!(ctx, f32, "f32");
}
