//! C10 — projections (src/projection.rs).
use crate::bigrat::BigRat;
use crate::core::*;
use crate::xq::{self, Xq};
use cgmath::*;

fn chk(ok: bool, what: &str) -> Result<(), String> {
    if ok { Ok(()) } else { Err(what.to_string()) }
}
fn one() -> Xq { Xq::q(1, 1) }
fn zero() -> Xq { Xq::q(0, 1) }
fn r(n: i128, d: i128) -> BigRat { BigRat::from_i(n, d) }

/// valid (l, r, b, t, n, f): asymmetric window, 0 < n < f
fn valid_box(ctx: &mut Ctx) -> Vec<BigRat> {
    loop {
        let g = ctx.generic(6);
        let (l, rr, b, t) = (g[0].clone(), g[1].clone(), g[2].clone(), g[3].clone());
        let (l, rr) = if l < rr { (l, rr) } else { (rr, l) };
        let (b, t) = if b < t { (b, t) } else { (t, b) };
        let n = g[4].abs();
        let f = n.add(&g[5].abs());
        if l.add(&rr).is_zero() || b.add(&t).is_zero() { continue; }
        return vec![l, rr, b, t, n, f];
    }
}
/// (fovy, aspect, near, far) with fovy = 2 k v in (0, half turn); returns also the base parameters
fn valid_persp(ctx: &mut Ctx) -> (Vec<BigRat>, (i128, i128)) {
    let (tn, td) = ctx.base_t();
    xq::reset();
    let base = xq::set_base_t(tn, td);
    let kmax = ((std::f64::consts::PI / 2.0) / base.beta).floor() as i64 - 1;
    let k = ctx.rng.range(1, kmax.max(1));
    let fovy = base.v.mul(&BigRat::int(2 * k as i128));
    let g = ctx.generic(3);
    let n = g[1].abs();
    let f = n.add(&g[2].abs());
    (vec![fovy, g[0].clone(), n, f], (tn, td))
}

pub fn cases(ctx: &mut Ctx) {
    for _ in 0..40 * ctx.scale {
        let b = valid_box(ctx);
        ctx.case("ortho", "nt:valid", &b, &|| (), &|x| ortho(x[0], x[1], x[2], x[3], x[4], x[5]));
        ctx.case("frustum", "nt:valid", &b, &|| (), &|x| frustum(x[0], x[1], x[2], x[3], x[4], x[5]));
        let g = ctx.generic(6);
        ctx.case("ortho", "generic", &g, &|| (), &|x| ortho(x[0], x[1], x[2], x[3], x[4], x[5]));
        // exactly one violated precondition: left > right, bottom > top, near > far
        for k in 0..3 {
            let mut v = b.clone();
            v.swap(2 * k, 2 * k + 1);
            ctx.case("frustum", "nt:one-violation", &v, &|| (), &|x| frustum(x[0], x[1], x[2], x[3], x[4], x[5]));
        }
        // boundary: equal bounds are accepted by the assertions (division by zero follows: panic at an exact scalar)
        let (p, (tn, td)) = valid_persp(ctx);
        let setup = move || { xq::set_base_t(tn, td); };
        ctx.case("perspective", "nt:valid", &p, &setup, &|x| perspective(Rad(x[0]), x[1], x[2], x[3]));
        ctx.case("to_perspective", "nt:valid", &p, &setup, &|x| {
            let pp = PerspectiveFov { fovy: Rad(x[0]), aspect: x[1], near: x[2], far: x[3] }.to_perspective();
            vec![pp.left, pp.right, pp.bottom, pp.top, pp.near, pp.far]
        });
        // Deg: the degree value whose radian conversion is exactly the lattice angle
        let c = BigRat::from_f64(std::f64::consts::PI / 180.0);
        let mut pd = p.clone(); pd[0] = p[0].div(&c);
        ctx.case("perspective_deg", "nt:valid", &pd, &setup, &|x| perspective(Deg(x[0]), x[1], x[2], x[3]));
        // one violated precondition each
        let half = BigRat::from_f64(std::f64::consts::PI * 2.0).div(&BigRat::int(2));
        let viol: Vec<(usize, BigRat)> = vec![
            (0, BigRat::zero()), (0, p[0].neg()), (0, half.clone()), (0, half.add(&p[0])),
            (1, BigRat::zero()), (2, BigRat::zero()), (2, p[2].neg()), (3, BigRat::zero()), (3, p[3].neg()), (3, p[2].clone()),
        ];
        for (i, val) in viol {
            let mut v = p.clone(); v[i] = val;
            ctx.case("perspective", "nt:one-violation", &v, &setup, &|x| perspective(Rad(x[0]), x[1], x[2], x[3]));
        }
        // planar: fovy, aspect, height, near, far
        let h = ctx.generic(1)[0].abs();
        let pl = vec![p[0].clone(), p[1].clone(), h.clone(), p[2].clone(), p[3].clone()];
        ctx.case("planar", "nt:valid", &pl, &setup, &|x| planar(Rad(x[0]), x[1], x[2], x[3], x[4]));
        let plneg = { let mut v = pl.clone(); v[0] = v[0].neg(); v };
        ctx.case("planar", "nt:negative-fovy", &plneg, &setup, &|x| planar(Rad(x[0]), x[1], x[2], x[3], x[4]));
        let violp: Vec<(usize, BigRat)> = vec![
            (0, half.clone()), (0, half.neg()), (2, h.neg()), (1, BigRat::zero()), (4, p[2].clone()),
        ];
        for (i, val) in violp {
            let mut v = pl.clone(); v[i] = val;
            ctx.case("planar", "nt:one-violation", &v, &setup, &|x| planar(Rad(x[0]), x[1], x[2], x[3], x[4]));
        }
    }
}

pub fn preds(ctx: &mut Ctx) {
    for _ in 0..40 * ctx.scale {
        let b = valid_box(ctx);
        ctx.pred("ortho:box-to-cube", &b, &|| (), &|x| {
            let (l, r, b, t, n, f) = (x[0], x[1], x[2], x[3], x[4], x[5]);
            let m = ortho(l, r, b, t, n, f);
            chk(m.row(3) == Vector4::new(zero(), zero(), zero(), one()), "ortho is affine")?;
            for sx in 0..2 { for sy in 0..2 { for sz in 0..2 {
                let p = Point3::new(if sx == 1 { r } else { l }, if sy == 1 { t } else { b }, if sz == 1 { -f } else { -n });
                let want = Point3::new(if sx == 1 { one() } else { -one() }, if sy == 1 { one() } else { -one() }, if sz == 1 { one() } else { -one() });
                chk(m.transform_point(p) == want, "box corner -> cube corner (near -> -1, far -> +1)")?;
            } } }
            // affine: midpoint goes to the origin
            let two = Xq::q(2, 1);
            chk(m.transform_point(Point3::new((l + r) / two, (b + t) / two, -(n + f) / two)) == Point3::new(zero(), zero(), zero()), "box centre -> origin")
        });
        ctx.pred("frustum:near-far", &b, &|| (), &|x| {
            let (l, r, b, t, n, f) = (x[0], x[1], x[2], x[3], x[4], x[5]);
            let m = frustum(l, r, b, t, n, f);
            for sx in 0..2 { for sy in 0..2 {
                let (px, py) = (if sx == 1 { r } else { l }, if sy == 1 { t } else { b });
                let (wx, wy) = (if sx == 1 { one() } else { -one() }, if sy == 1 { one() } else { -one() });
                let h = m * Vector4::new(px, py, -n, one());
                chk(h.w == n, "w = -z")?;
                chk(m.transform_point(Point3::new(px, py, -n)) == Point3::new(wx, wy, -one()), "near rectangle -> z = -1 face")?;
                chk(m.transform_point(Point3::new(px * f / n, py * f / n, -f)) == Point3::new(wx, wy, one()), "similar far rectangle -> z = +1 face")?;
            } }
            Ok(())
        });
        for k in 0..3 {
            let mut v = b.clone(); v.swap(2 * k, 2 * k + 1);
            ctx.pred("frustum:rejects", &v, &|| (), &|x| {
                let r = std::panic::catch_unwind(std::panic::AssertUnwindSafe(|| frustum(x[0], x[1], x[2], x[3], x[4], x[5])));
                chk(r.is_err(), "frustum with left > right / bottom > top / near > far must panic")
            });
        }
        let (p, (tn, td)) = valid_persp(ctx);
        let setup = move || { xq::set_base_t(tn, td); };
        ctx.pred("perspective:is-frustum", &p, &setup, &|x| {
            let (fovy, a, n, f) = (Rad(x[0]), x[1], x[2], x[3]);
            let ymax = n * Rad::tan(fovy / Xq::q(2, 1));
            let xmax = ymax * a;
            // (a negative aspect is accepted by perspective but gives left > right, which frustum rejects)
            if a > zero() {
                chk(perspective(fovy, a, n, f) == frustum(-xmax, xmax, -ymax, ymax, n, f), "perspective = frustum of the symmetric window")?;
            }
            let pp = PerspectiveFov { fovy, aspect: a, near: n, far: f }.to_perspective();
            chk(pp.top == ymax && pp.bottom == -ymax && pp.right == xmax && pp.left == -xmax && pp.near == n && pp.far == f, "to_perspective window")
        });
        let half = BigRat::from_f64(std::f64::consts::PI * 2.0).div(&BigRat::int(2));
        let viol: Vec<(usize, BigRat)> = vec![
            (0, BigRat::zero()), (0, p[0].neg()), (0, half.clone()), (1, BigRat::zero()), (2, BigRat::zero()), (2, p[2].neg()),
            (3, BigRat::zero()), (3, p[3].neg()), (3, p[2].clone()),
        ];
        for (i, val) in viol {
            let mut v = p.clone(); v[i] = val;
            ctx.pred("perspective:rejects", &v, &setup, &|x| {
                let r = std::panic::catch_unwind(std::panic::AssertUnwindSafe(|| perspective(Rad(x[0]), x[1], x[2], x[3])));
                chk(r.is_err(), "perspective with a violated precondition must panic")
            });
        }
        let h = ctx.generic(1)[0].abs();
        let pl = vec![p[0].clone(), p[1].clone(), h.clone(), p[2].clone(), p[3].clone()];
        ctx.pred("planar:window", &pl, &setup, &|x| {
            let (fovy, a, h, n, f) = (Rad(x[0]), x[1], x[2], x[3], x[4]);
            let m = planar(fovy, a, h, n, f);
            let two = Xq::q(2, 1);
            for sx in 0..2 { for sy in 0..2 {
                let (px, py) = (if sx == 1 { a * h / two } else { -(a * h / two) }, if sy == 1 { h / two } else { -(h / two) });
                let q = m.transform_point(Point3::new(px, py, zero()));
                chk(q.x == if sx == 1 { one() } else { -one() } && q.y == if sy == 1 { one() } else { -one() }, "z = 0 window -> [-1,1]^2")?;
            } }
            chk(m.transform_point(Point3::new(x[1], x[2], -n)).z == -one(), "z = -n -> -1")?;
            chk(m.transform_point(Point3::new(x[1], x[2], -f)).z == one(), "z = -f -> +1")?;
            // focal point at distance (h/2) cot(fovy/2) behind the origin: w vanishes there
            let zf = (h / two) * Rad::cot(fovy / two);
            chk((m * Vector4::new(x[1], x[2], zf, one())).w == zero(), "focal point at (h/2) cot(fovy/2)")
        });
        let violp: Vec<(usize, BigRat)> = vec![(0, half.clone()), (0, half.neg()), (2, h.neg()), (1, BigRat::zero()), (4, p[2].clone())];
        for (i, val) in violp {
            let mut v = pl.clone(); v[i] = val;
            ctx.pred("planar:rejects", &v, &setup, &|x| {
                let r = std::panic::catch_unwind(std::panic::AssertUnwindSafe(|| planar(Rad(x[0]), x[1], x[2], x[3], x[4])));
                chk(r.is_err(), "planar with a violated precondition must panic")
            });
        }
    }
    // native f64 at the exact boundaries of every stated precondition: at the exact scalar some boundaries coincide with a
    // pole of the formula (tan(pi/2)), which would hide an assertion that lets the boundary value through
    {
        use std::f64::consts::PI;
        let pan = |f: &dyn Fn() -> Matrix4<f64>| std::panic::catch_unwind(std::panic::AssertUnwindSafe(f)).is_err();
        let cases: Vec<(&str, bool)> = vec![
            ("perspective fovy = 0", pan(&|| perspective(Rad(0.0f64), 1.5, 0.5, 10.0))),
            ("perspective fovy = pi", pan(&|| perspective(Rad(PI), 1.5, 0.5, 10.0))),
            ("perspective fovy < 0", pan(&|| perspective(Rad(-0.5f64), 1.5, 0.5, 10.0))),
            ("perspective aspect = 0", pan(&|| perspective(Rad(1.0f64), 0.0, 0.5, 10.0))),
            ("perspective near = 0", pan(&|| perspective(Rad(1.0f64), 1.5, 0.0, 10.0))),
            ("perspective far = 0", pan(&|| perspective(Rad(1.0f64), 1.5, 0.5, 0.0))),
            ("perspective near = far", pan(&|| perspective(Rad(1.0f64), 1.5, 2.0, 2.0))),
            ("perspective(Deg) fovy = 180", pan(&|| perspective(Deg(180.0f64), 1.5, 0.5, 10.0))),
            ("frustum left > right", pan(&|| frustum(1.0f64, -1.0, -1.0, 1.0, 0.5, 10.0))),
            ("frustum bottom > top", pan(&|| frustum(-1.0f64, 1.0, 1.0, -1.0, 0.5, 10.0))),
            ("frustum near > far", pan(&|| frustum(-1.0f64, 1.0, -1.0, 1.0, 10.0, 0.5))),
            ("planar fovy = -pi", pan(&|| planar(Rad(-PI), 1.5, 2.0, 0.5, 10.0))),
            ("planar fovy = pi", pan(&|| planar(Rad(PI), 1.5, 2.0, 0.5, 10.0))),
            ("planar fovy < -pi", pan(&|| planar(Rad(-4.0f64), 1.5, 2.0, 0.5, 10.0))),
            ("planar height < 0", pan(&|| planar(Rad(1.0f64), 1.5, -2.0, 0.5, 10.0))),
            ("planar aspect = 0", pan(&|| planar(Rad(1.0f64), 0.0, 2.0, 0.5, 10.0))),
            ("planar near = far", pan(&|| planar(Rad(1.0f64), 1.5, 2.0, 3.0, 3.0))),
            // focal point -(h/2) cot(fovy/2) = 1 / tan(0.5) ~ 1.83 lies between near = 0.5 and far = 10
            ("planar focal point between the planes", pan(&|| planar(Rad(-1.0f64), 1.5, 2.0, 0.5, 10.0))),
        ];
        let accepted: Vec<(&str, bool)> = vec![
            ("perspective valid", !pan(&|| perspective(Rad(1.0f64), 1.5, 0.5, 10.0))),
            ("frustum valid (equal bounds are accepted by the assertions)", !pan(&|| frustum(-1.0f64, 1.0, -1.0, 1.0, 0.5, 10.0))),
            ("planar valid", !pan(&|| planar(Rad(1.0f64), 1.5, 2.0, 0.5, 10.0))),
            ("planar valid, negative fovy (focal point 1.83 in front of both planes)", !pan(&|| planar(Rad(-1.0f64), 1.5, 2.0, 3.0, 10.0))),
        ];
        // fovy = 0 is a valid planar projection (the orthographic limit, documented): the exact scalar cannot evaluate it
        // (the focal point is 1/0), natively every entry is finite and the mapping clauses hold exactly on dyadic values
        let planar0 = std::panic::catch_unwind(|| {
            let (a, h, n, f) = (1.5f64, 2.0f64, 0.5f64, 4.5f64);
            let m = planar(Rad(0.0f64), a, h, n, f);
            let fin = (0..4).all(|c| (0..4).all(|r| m[c][r].is_finite()));
            let z = |zz: f64| { let v = m * Vector4::new(0.25f64, -0.5, zz, 1.0); (v.z / v.w, v.w) };
            let corner = m * Vector4::new(a * h / 2.0, h / 2.0, 0.0, 1.0);
            fin && z(-n) == (-1.0, 1.0) && z(-f) == (1.0, 1.0) && corner.x / corner.w == 1.0 && corner.y / corner.w == 1.0
        }).unwrap_or(false);
        let accepted: Vec<(&str, bool)> = accepted.into_iter().chain(std::iter::once(("planar fovy = 0: finite entries, z = -n -> -1, z = -f -> +1, window corner -> (1,1)", planar0))).collect();
        for (what, ok) in cases.into_iter().chain(accepted.into_iter()) {
            let w = what.to_string();
            ctx.pred("rejects(f64 boundary)", &[], &|| (), &move |_| chk(ok, &w));
        }
    }
    let _ = r(1, 1);
}
