//! C04 — Hamilton algebra, unit quaternions as rotations (src/quaternion.rs).
use crate::bigrat::BigRat;
use crate::core::*;
use crate::xq::Xq;
use cgmath::*;

fn chk(ok: bool, what: &str) -> Result<(), String> {
    if ok { Ok(()) } else { Err(what.to_string()) }
}
fn one() -> Xq { Xq::q(1, 1) }
fn zero() -> Xq { Xq::q(0, 1) }

pub fn cases(ctx: &mut Ctx) {
    for round in 0..48 * ctx.scale {
        // alternate arbitrary and exactly unit quaternions
        let (p, q, tag) = if round % 2 == 0 {
            let g = ctx.generic(8);
            (g[..4].to_vec(), g[4..].to_vec(), "generic")
        } else {
            (ctx.unit4(), ctx.unit4(), "nt:unit")
        };
        let v = ctx.generic(4);
        let pq: Vec<BigRat> = p.iter().chain(q.iter()).cloned().collect();
        let pv: Vec<BigRat> = p.iter().chain(v[..3].iter()).cloned().collect();
        let ps: Vec<BigRat> = p.iter().chain(v[3..4].iter()).cloned().collect();
        ctx.case("q_new", tag, &p, &|| (), &|x| qn(x));
        ctx.case("q_from_sv", tag, &p, &|| (), &|x| Quaternion::from_sv(x[0], v3(&x[1..4])));
        ctx.case("q_mul", tag, &pq, &|| (), &|x| qn(x) * qn(&x[4..]));
        ctx.case("q_mul_v", tag, &pv, &|| (), &|x| qn(x) * v3(&x[4..]));
        ctx.case("q_conjugate", tag, &p, &|| (), &|x| qn(x).conjugate());
        ctx.case("q_neg", tag, &p, &|| (), &|x| -qn(x));
        ctx.case("q_add", tag, &pq, &|| (), &|x| qn(x) + qn(&x[4..]));
        ctx.case("q_sub", tag, &pq, &|| (), &|x| qn(x) - qn(&x[4..]));
        ctx.case("q_mul_s", tag, &ps, &|| (), &|x| qn(x) * x[4]);
        ctx.case("q_div_s", tag, &ps, &|| (), &|x| qn(x) / x[4]);
        ctx.case("q_rem_s", tag, &ps, &|| (), &|x| qn(x) % x[4]);
        ctx.case("q_dot", tag, &pq, &|| (), &|x| qn(x).dot(qn(&x[4..])));
        ctx.case("q_magnitude2", tag, &p, &|| (), &|x| qn(x).magnitude2());
        ctx.case("q_invert", tag, &p, &|| (), &|x| qn(x).invert());
        ctx.case("q_rotate_vector", tag, &pv, &|| (), &|x| qn(x).rotate_vector(v3(&x[4..])));
        ctx.case("q_rotate_point", tag, &pv, &|| (), &|x| qn(x).rotate_point(p3(&x[4..])));
        let mut pqt = pq.clone(); pqt.push(v[3].clone());
        ctx.case("q_lerp", tag, &pqt, &|| (), &|x| qn(x).lerp(qn(&x[4..]), x[8]));
    }
    ctx.case("q_one", "const", &[], &|| (), &|_| Quaternion::<Xq>::one());
    ctx.case("q_zero", "const", &[], &|| (), &|_| Quaternion::<Xq>::zero());
}

pub fn preds(ctx: &mut Ctx) {
    for round in 0..60 * ctx.scale {
        let g = ctx.generic(16);
        let mut inp = g[..15].to_vec();
        ctx.pred("quat:algebra", &inp, &|| (), &|x| {
            let (p, q, r, v) = (qn(x), qn(&x[4..]), qn(&x[8..]), v3(&x[12..15]));
            chk((p * q) * r == p * (q * r), "associative")?;
            chk(p * (q + r) == p * q + p * r && (p + q) * r == p * r + q * r, "distributive")?;
            chk(p * Quaternion::one() == p && Quaternion::one() * p == p, "one() is the identity")?;
            chk((p * q).conjugate() == q.conjugate() * p.conjugate(), "conjugate anti-homomorphism")?;
            chk((p * q).magnitude2() == p.magnitude2() * q.magnitude2(), "norm multiplicative")?;
            chk(p * p.invert() == Quaternion::one() && p.invert() * p == Quaternion::one(), "q*invert(q) = one")?;
            let two = one() + one();
            chk(q * v == v + q.v.cross(q.v.cross(v) + v * q.s) * two, "q*v = v + 2 qv x (qv x v + s v)")?;
            chk(q.rotate_vector(v) == q * v, "rotate_vector = q*v")?;
            chk(q.rotate_point(Point3::from_vec(v)) == Point3::from_vec(q * v), "rotate_point")
        });
        // unit quaternions
        let (p, q) = (ctx.unit4(), ctx.unit4());
        inp = p.iter().chain(q.iter()).chain(g[..3].iter()).cloned().collect();
        let _ = round;
        ctx.pred("quat:unit-rotation", &inp, &|| (), &|x| {
            let (p, q, v) = (qn(x), qn(&x[4..]), v3(&x[8..11]));
            chk(p.magnitude2() == one() && q.magnitude2() == one(), "generator: unit inputs")?;
            let s = q * Quaternion::from_sv(zero(), v) * q.conjugate();
            chk(s.s == zero() && s.v == q * v, "q*v = vector part of q (0,v) conj(q)")?;
            chk((q * v).magnitude2() == v.magnitude2(), "unit q preserves length")?;
            chk((p * q) * v == p * (q * v), "(p q)*v = p*(q*v)")
        });
    }
}
