//! C08 — transforms compose, invert and convert to matrices (src/transform.rs, matrix.rs).
use crate::bigrat::{BigInt, BigRat};
use crate::core::*;
use crate::xq::{self, Xq};
use cgmath::*;

fn chk(ok: bool, what: &str) -> Result<(), String> {
    if ok { Ok(()) } else { Err(what.to_string()) }
}
fn one() -> Xq { Xq::q(1, 1) }
fn zero() -> Xq { Xq::q(0, 1) }

type DQ = Decomposed<Vector3<Xq>, Quaternion<Xq>>;
type DB3 = Decomposed<Vector3<Xq>, Basis3<Xq>>;
type DB2 = Decomposed<Vector2<Xq>, Basis2<Xq>>;

fn dq(x: &[Xq]) -> DQ { Decomposed { scale: x[0], rot: qn(&x[1..5]), disp: v3(&x[5..8]) } }
/// Basis3 from a unit quaternion [s,x,y,z] (the model is given the matrix entries)
fn db3(x: &[Xq], _q: &[BigRat]) -> DB3 {
    Decomposed { scale: x[0], rot: b3(&x[1..10]), disp: v3(&x[10..13]) }
}
/// Basis2 from an angle k*v of the case's base angle
fn db2(x: &[Xq], _ang: &BigRat) -> DB2 {
    Decomposed { scale: x[0], rot: b2(&x[1..5]), disp: v2(&x[5..7]) }
}

/// scale factors: generic, zero, negative, negligibly small (treated as zero by ulps_eq), small but not negligible
fn scale(ctx: &mut Ctx, k: usize) -> (BigRat, &'static str) {
    let g = ctx.generic(1).pop().unwrap();
    match k % 6 {
        0 | 1 => (g.abs(), "nt:scale>0"),
        2 => (g.abs().neg(), "nt:scale<0"),
        3 => (BigRat::zero(), "nt:scale=0"),
        4 => (BigRat::new(BigInt::one(), BigInt::one().shl(60)), "nt:scale-negligible"),
        _ => (BigRat::from_i(1, 100000), "nt:scale-small"),
    }
}

struct Gen { q1: Vec<BigRat>, q2: Vec<BigRat>, m1: Vec<BigRat>, m2: Vec<BigRat>, tn: i128, td: i128, a1: BigRat, a2: BigRat, b1: Vec<BigRat>, b2: Vec<BigRat> }

fn gen(ctx: &mut Ctx) -> Gen {
    let (q1, q2) = (ctx.unit4(), ctx.unit4());
    let mat = |q: &Vec<BigRat>| -> Vec<BigRat> {
        xq::reset();
        let qx: Vec<Xq> = q.iter().map(|r| Xq::new(r.clone())).collect();
        let m: Matrix3<Xq> = qn(&qx).into();
        let mut fl = vec![]; m.flat(&mut fl); rats(&fl)
    };
    let (m1, m2) = (mat(&q1), mat(&q2));
    let (tn, td) = ctx.base_t();
    xq::reset();
    let base = xq::set_base_t(tn, td);
    let (k1, k2) = (ctx.rng.range(-9, 9), ctx.rng.range(1, 9));
    let (a1, a2) = (base.v.mul(&BigRat::int(k1 as i128)), base.v.mul(&BigRat::int(k2 as i128)));
    let bm = |a: &BigRat| -> Vec<BigRat> {
        let b = Basis2::from_angle(Rad(Xq::new(a.clone())));
        let mut fl = vec![]; b.flat(&mut fl); rats(&fl)
    };
    let (b1, b2) = (bm(&a1), bm(&a2));
    Gen { q1, q2, m1, m2, tn, td, a1, a2, b1, b2 }
}

pub fn cases(ctx: &mut Ctx) {
    for round in 0..48 * ctx.scale {
        let g = gen(ctx);
        let (s1, tag) = scale(ctx, round);
        let (s2, _) = scale(ctx, 0);
        let w = ctx.generic(12);
        let cat = |parts: &[&[BigRat]]| -> Vec<BigRat> { parts.iter().flat_map(|p| p.iter().cloned()).collect() };
        // ---- Decomposed<Vector3, Quaternion>
        let d1 = cat(&[&[s1.clone()], &g.q1, &w[0..3]]);
        let d2 = cat(&[&[s2.clone()], &g.q2, &w[3..6]]);
        let d1v = cat(&[&d1, &w[6..9]]);
        let d12 = cat(&[&d1, &d2]);
        ctx.case("dq_transform_vector", tag, &d1v, &|| (), &|x| dq(x).transform_vector(v3(&x[8..11])));
        ctx.case("dq_transform_point", tag, &d1v, &|| (), &|x| dq(x).transform_point(p3(&x[8..11])));
        ctx.case("dq_concat", tag, &d12, &|| (), &|x| dq(x).concat(&dq(&x[8..])));
        ctx.case("dq_mul", tag, &d12, &|| (), &|x| dq(x) * dq(&x[8..]));
        ctx.case("dq_concat_self", tag, &d12, &|| (), &|x| { let mut a = dq(x); a.concat_self(&dq(&x[8..])); a });
        ctx.case("dq_inverse_transform", tag, &d1, &|| (), &|x| dq(x).inverse_transform());
        ctx.case("dq_inverse_transform_vector", tag, &d1v, &|| (), &|x| dq(x).inverse_transform_vector(v3(&x[8..11])));
        ctx.case("dq_to_m4", tag, &d1, &|| (), &|x| Matrix4::from(dq(x)));
        // ---- Decomposed<Vector3, Basis3>: inputs scale, 9 matrix entries, disp
        let e1 = cat(&[&[s1.clone()], &g.m1, &w[0..3]]);
        let e2 = cat(&[&[s2.clone()], &g.m2, &w[3..6]]);
        let e1v = cat(&[&e1, &w[6..9]]);
        let e12 = cat(&[&e1, &e2]);
        let (q1, q2) = (g.q1.clone(), g.q2.clone());
        ctx.case("db3_transform_vector", tag, &e1v, &|| (), &|x| db3(x, &q1).transform_vector(v3(&x[13..16])));
        ctx.case("db3_transform_point", tag, &e1v, &|| (), &|x| db3(x, &q1).transform_point(p3(&x[13..16])));
        ctx.case("db3_concat", tag, &e12, &|| (), &|x| db3(x, &q1).concat(&db3(&x[13..], &q2)));
        ctx.case("db3_mul", tag, &e12, &|| (), &|x| db3(x, &q1) * db3(&x[13..], &q2));
        ctx.case("db3_inverse_transform", tag, &e1, &|| (), &|x| db3(x, &q1).inverse_transform());
        ctx.case("db3_inverse_transform_vector", tag, &e1v, &|| (), &|x| db3(x, &q1).inverse_transform_vector(v3(&x[13..16])));
        ctx.case("db3_to_m4", tag, &e1, &|| (), &|x| Matrix4::from(db3(x, &q1)));
        // ---- Decomposed<Vector2, Basis2>: inputs scale, 4 matrix entries, disp
        let f1 = cat(&[&[s1.clone()], &g.b1, &w[0..2]]);
        let f2 = cat(&[&[s2.clone()], &g.b2, &w[3..5]]);
        let f1v = cat(&[&f1, &w[6..8]]);
        let f12 = cat(&[&f1, &f2]);
        let (tn, td) = (g.tn, g.td);
        let setup = move || { xq::set_base_t(tn, td); };
        let (a1, a2) = (g.a1.clone(), g.a2.clone());
        ctx.case("db2_transform_vector", tag, &f1v, &setup, &|x| db2(x, &a1).transform_vector(v2(&x[7..9])));
        ctx.case("db2_transform_point", tag, &f1v, &setup, &|x| db2(x, &a1).transform_point(p2(&x[7..9])));
        ctx.case("db2_concat", tag, &f12, &setup, &|x| db2(x, &a1).concat(&db2(&x[7..], &a2)));
        ctx.case("db2_mul", tag, &f12, &setup, &|x| db2(x, &a1) * db2(&x[7..], &a2));
        ctx.case("db2_inverse_transform", tag, &f1, &setup, &|x| db2(x, &a1).inverse_transform());
        ctx.case("db2_inverse_transform_vector", tag, &f1v, &setup, &|x| db2(x, &a1).inverse_transform_vector(v2(&x[7..9])));
        ctx.case("db2_to_m3", tag, &f1, &setup, &|x| Matrix3::from(db2(x, &a1)));
        // ---- matrices: inverse_transform_vector default method
        let gm = ctx.generic(19);
        ctx.case("m4_inverse_transform_vector", "generic", &gm, &|| (), &|x| m4(x).inverse_transform_vector(v3(&x[16..19])));
        ctx.case("m3_inverse_transform_vector3", "generic", &gm[..12], &|| (), &|x| Transform::<Point3<Xq>>::inverse_transform_vector(&m3(x), v3(&x[9..12])));
        ctx.case("m3_inverse_transform_vector2", "generic", &gm[..11], &|| (), &|x| Transform::<Point2<Xq>>::inverse_transform_vector(&m3(x), v2(&x[9..11])));
    }
    ctx.case("dq_one", "const", &[], &|| (), &|_| DQ::one());
    ctx.case("db3_one", "const", &[], &|| (), &|_| DB3::one());
    ctx.case("db2_one", "const", &[], &|| (), &|_| DB2::one());
}

/// affine 4x4 / 3x3 matrices with generic entries
fn affine4(ctx: &mut Ctx) -> Vec<BigRat> {
    let mut a = ctx.generic(16);
    a[3] = BigRat::zero(); a[7] = BigRat::zero(); a[11] = BigRat::zero(); a[15] = BigRat::one();
    a
}
fn affine3(ctx: &mut Ctx) -> Vec<BigRat> {
    let mut a = ctx.generic(9);
    a[2] = BigRat::zero(); a[5] = BigRat::zero(); a[8] = BigRat::one();
    a
}

macro_rules! dec_preds {
    ($ctx:ident, $name:expr, $d1:expr, $d2:expr, $inp:expr, $setup:expr, $vn:expr, $mkv:ident, $mkp:ident, $M:ident, $ident:expr, $P:ty) => {{
        $ctx.pred($name, $inp, $setup, &|x| {
            let (s, t) = ($d1(x), $d2(x));
            let n = x.len();
            let (v, p) = ($mkv(&x[n - $vn..]), $mkp(&x[n - $vn..]));
            let c = s.concat(&t);
            chk(c.transform_vector(v) == s.transform_vector(t.transform_vector(v)), "concat(s,t)(v) = s(t(v))")?;
            chk(c.transform_point(p) == s.transform_point(t.transform_point(p)), "concat(s,t)(p) = s(t(p))")?;
            chk(s * t == c, "s * t = concat(s,t)")?;
            let mut cs = s; cs.concat_self(&t);
            chk(cs == c, "concat_self = concat")?;
            let mut nd = s; nd.disp = nd.disp + v;
            chk(nd.transform_vector(v) == s.transform_vector(v), "transform_vector ignores displacement")?;
            let ms: $M<Xq> = s.into();
            let mt: $M<Xq> = t.into();
            chk(Transform::<$P>::transform_vector(&ms, v) == s.transform_vector(v) && Transform::<$P>::transform_point(&ms, p) == s.transform_point(p), "to matrix commutes with applying")?;
            let mc: $M<Xq> = c.into();
            chk(mc == ms * mt, "to matrix commutes with composing")?;
            let tiny = Xq::new(BigRat::from_i(1, 1000000));
            match s.inverse_transform() {
                None => { chk(num_traits::Float::abs(s.scale) <= tiny, "inverse_transform = None only for negligible scale")?;
                          chk(s.inverse_transform_vector(v).is_none(), "inverse_transform_vector agrees (None)") }
                Some(i) => {
                    chk(s.scale != zero(), "inverse_transform must be None for zero scale")?;
                    chk(i.transform_point(s.transform_point(p)) == p && s.transform_point(i.transform_point(p)) == p, "inverse undoes on points")?;
                    chk(i.transform_vector(s.transform_vector(v)) == v && s.transform_vector(i.transform_vector(v)) == v, "inverse undoes on vectors")?;
                    chk(s.inverse_transform_vector(v) == Some(i.transform_vector(v)), "inverse_transform_vector agrees")?;
                    let mi: $M<Xq> = i.into();
                    chk(mi * ms == $ident && ms * mi == $ident, "to matrix commutes with inverting")
                }
            }
        });
    }};
}

pub fn preds(ctx: &mut Ctx) {
    for round in 0..36 * ctx.scale {
        let g = gen(ctx);
        let (s1, _) = scale(ctx, round);
        let (s2, _) = scale(ctx, 0);
        let w = ctx.generic(12);
        let cat = |parts: &[&[BigRat]]| -> Vec<BigRat> { parts.iter().flat_map(|p| p.iter().cloned()).collect() };
        let i1 = cat(&[&[s1.clone()], &g.q1, &w[0..3], &[s2.clone()], &g.q2, &w[3..6], &w[6..9]]);
        dec_preds!(ctx, "decomposed-quat", |x: &[Xq]| dq(x), |x: &[Xq]| dq(&x[8..]), &i1, &|| (), 3, v3, p3, Matrix4, Matrix4::<Xq>::identity(), Point3<Xq>);
        let i2 = cat(&[&[s1.clone()], &g.m1, &w[0..3], &[s2.clone()], &g.m2, &w[3..6], &w[6..9]]);
        let (q1, q2) = (g.q1.clone(), g.q2.clone());
        dec_preds!(ctx, "decomposed-basis3", |x: &[Xq]| db3(x, &q1), |x: &[Xq]| db3(&x[13..], &q2), &i2, &|| (), 3, v3, p3, Matrix4, Matrix4::<Xq>::identity(), Point3<Xq>);
        let i3 = cat(&[&[s1.clone()], &g.b1, &w[0..2], &[s2.clone()], &g.b2, &w[3..5], &w[6..8]]);
        let (tn, td) = (g.tn, g.td);
        let setup = move || { xq::set_base_t(tn, td); };
        let (a1, a2) = (g.a1.clone(), g.a2.clone());
        dec_preds!(ctx, "decomposed-basis2", |x: &[Xq]| db2(x, &a1), |x: &[Xq]| db2(&x[7..], &a2), &i3, &setup, 2, v2, p2, Matrix3, Matrix3::<Xq>::identity(), Point2<Xq>);
        ctx.pred("decomposed:one", &w[..3], &|| (), &|x| {
            let (v, p) = (v3(x), p3(x));
            chk(DQ::one().transform_vector(v) == v && DQ::one().transform_point(p) == p, "one() (quaternion)")?;
            chk(DB3::one().transform_vector(v) == v && DB3::one().transform_point(p) == p, "one() (Basis3)")?;
            chk(DB2::one().transform_vector(v.truncate()) == v.truncate(), "one() (Basis2)")
        });
        // matrices as transforms
        let (a, b) = (affine4(ctx), affine4(ctx));
        let im = cat(&[&a, &b, &w[0..3]]);
        ctx.pred("matrix4-transform", &im, &|| (), &|x| {
            let (s, t, v, p) = (m4(x), m4(&x[16..]), v3(&x[32..35]), p3(&x[32..35]));
            let c = s.concat(&t);
            chk(c.transform_vector(v) == s.transform_vector(t.transform_vector(v)), "concat(s,t)(v) = s(t(v))")?;
            chk(c.transform_point(p) == s.transform_point(t.transform_point(p)), "concat(s,t)(p) = s(t(p))")?;
            chk(Matrix4::<Xq>::one().transform_point(p) == p && Matrix4::<Xq>::one().transform_vector(v) == v, "one()")?;
            match s.inverse_transform() {
                None => chk(s.determinant() == zero(), "inverse_transform = None only for zero determinant"),
                Some(i) => { chk(s.determinant() != zero(), "inverse_transform = Some only for non-zero determinant")?;
                             chk(i.transform_point(s.transform_point(p)) == p && i.transform_vector(s.transform_vector(v)) == v, "inverse undoes")?;
                             chk(s.inverse_transform_vector(v) == Some(i.transform_vector(v)), "inverse_transform_vector agrees") }
            }
        });
        let (a, b) = (affine3(ctx), affine3(ctx));
        let im = cat(&[&a, &b, &w[0..2]]);
        ctx.pred("matrix3-transform2", &im, &|| (), &|x| {
            let (s, t, v, p) = (m3(x), m3(&x[9..]), v2(&x[18..20]), p2(&x[18..20]));
            let c = Transform::<Point2<Xq>>::concat(&s, &t);
            chk(Transform::<Point2<Xq>>::transform_vector(&c, v) == Transform::<Point2<Xq>>::transform_vector(&s, Transform::<Point2<Xq>>::transform_vector(&t, v)), "concat(s,t)(v) = s(t(v))")?;
            chk(Transform::<Point2<Xq>>::transform_point(&c, p) == Transform::<Point2<Xq>>::transform_point(&s, Transform::<Point2<Xq>>::transform_point(&t, p)), "concat(s,t)(p) = s(t(p))")?;
            match Transform::<Point2<Xq>>::inverse_transform(&s) {
                None => chk(s.determinant() == zero(), "inverse_transform = None only for zero determinant"),
                Some(i) => chk(Transform::<Point2<Xq>>::transform_point(&i, Transform::<Point2<Xq>>::transform_point(&s, p)) == p, "inverse undoes"),
            }
        });
        let gm = ctx.generic(21);
        ctx.pred("matrix3-transform3", &gm, &|| (), &|x| {
            let (s, t, v, p) = (m3(x), m3(&x[9..]), v3(&x[18..21]), p3(&x[18..21]));
            let c = Transform::<Point3<Xq>>::concat(&s, &t);
            chk(Transform::<Point3<Xq>>::transform_vector(&c, v) == Transform::<Point3<Xq>>::transform_vector(&s, Transform::<Point3<Xq>>::transform_vector(&t, v)), "concat(s,t)(v) = s(t(v))")?;
            chk(Transform::<Point3<Xq>>::transform_point(&c, p) == Transform::<Point3<Xq>>::transform_point(&s, Transform::<Point3<Xq>>::transform_point(&t, p)), "concat(s,t)(p) = s(t(p))")?;
            match Transform::<Point3<Xq>>::inverse_transform(&s) {
                None => chk(s.determinant() == zero(), "inverse_transform = None only for zero determinant"),
                Some(i) => chk(Transform::<Point3<Xq>>::transform_point(&i, Transform::<Point3<Xq>>::transform_point(&s, p)) == p
                               && Transform::<Point3<Xq>>::transform_vector(&i, Transform::<Point3<Xq>>::transform_vector(&s, v)) == v, "inverse undoes"),
            }
        });
    }
    let _ = one();
}
