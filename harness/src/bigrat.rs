//! Arbitrary-precision integers and rationals (no bignum crate is available offline).
//! Simple algorithms with u128 fast paths; correctness over speed.

use std::cmp::Ordering;
use std::fmt;

#[derive(Clone, PartialEq, Eq, Hash)]
pub struct BigInt {
    neg: bool,
    mag: Vec<u32>, // little endian, no trailing zero limbs; zero = empty, neg = false
}

fn trim(v: &mut Vec<u32>) {
    while let Some(&0) = v.last() {
        v.pop();
    }
}

fn cmp_mag(a: &[u32], b: &[u32]) -> Ordering {
    if a.len() != b.len() {
        return a.len().cmp(&b.len());
    }
    for i in (0..a.len()).rev() {
        if a[i] != b[i] {
            return a[i].cmp(&b[i]);
        }
    }
    Ordering::Equal
}

fn add_mag(a: &[u32], b: &[u32]) -> Vec<u32> {
    let (a, b) = if a.len() >= b.len() { (a, b) } else { (b, a) };
    let mut r = Vec::with_capacity(a.len() + 1);
    let mut carry = 0u64;
    for i in 0..a.len() {
        let s = a[i] as u64 + if i < b.len() { b[i] as u64 } else { 0 } + carry;
        r.push(s as u32);
        carry = s >> 32;
    }
    if carry > 0 {
        r.push(carry as u32);
    }
    r
}

// a >= b
fn sub_mag(a: &[u32], b: &[u32]) -> Vec<u32> {
    let mut r = Vec::with_capacity(a.len());
    let mut borrow = 0i64;
    for i in 0..a.len() {
        let mut d = a[i] as i64 - borrow - if i < b.len() { b[i] as i64 } else { 0 };
        if d < 0 {
            d += 1 << 32;
            borrow = 1;
        } else {
            borrow = 0;
        }
        r.push(d as u32);
    }
    debug_assert!(borrow == 0);
    trim(&mut r);
    r
}

fn mul_mag(a: &[u32], b: &[u32]) -> Vec<u32> {
    if a.is_empty() || b.is_empty() {
        return vec![];
    }
    let mut r = vec![0u32; a.len() + b.len()];
    for i in 0..a.len() {
        let mut carry = 0u64;
        let ai = a[i] as u64;
        for j in 0..b.len() {
            let t = ai * b[j] as u64 + r[i + j] as u64 + carry;
            r[i + j] = t as u32;
            carry = t >> 32;
        }
        let mut k = i + b.len();
        while carry > 0 {
            let t = r[k] as u64 + carry;
            r[k] = t as u32;
            carry = t >> 32;
            k += 1;
        }
    }
    trim(&mut r);
    r
}

fn bits_mag(a: &[u32]) -> usize {
    match a.last() {
        None => 0,
        Some(&t) => (a.len() - 1) * 32 + (32 - t.leading_zeros() as usize),
    }
}

fn shl_mag(a: &[u32], n: usize) -> Vec<u32> {
    if a.is_empty() {
        return vec![];
    }
    let (w, b) = (n / 32, n % 32);
    let mut r = vec![0u32; w];
    if b == 0 {
        r.extend_from_slice(a);
    } else {
        let mut carry = 0u32;
        for &x in a {
            r.push((x << b) | carry);
            carry = x >> (32 - b);
        }
        if carry > 0 {
            r.push(carry);
        }
    }
    r
}

fn shr_mag(a: &[u32], n: usize) -> Vec<u32> {
    let (w, b) = (n / 32, n % 32);
    if w >= a.len() {
        return vec![];
    }
    let mut r = Vec::with_capacity(a.len() - w);
    for i in w..a.len() {
        let lo = a[i] >> b;
        let hi = if b > 0 && i + 1 < a.len() { a[i + 1] << (32 - b) } else { 0 };
        r.push(lo | hi);
    }
    trim(&mut r);
    r
}

fn to_u128(a: &[u32]) -> Option<u128> {
    if a.len() > 4 {
        return None;
    }
    let mut r = 0u128;
    for i in (0..a.len()).rev() {
        r = (r << 32) | a[i] as u128;
    }
    Some(r)
}

fn from_u128(mut x: u128) -> Vec<u32> {
    let mut r = vec![];
    while x > 0 {
        r.push(x as u32);
        x >>= 32;
    }
    r
}

fn divrem_small(a: &[u32], d: u32) -> (Vec<u32>, u32) {
    let mut q = vec![0u32; a.len()];
    let mut rem = 0u64;
    for i in (0..a.len()).rev() {
        let cur = (rem << 32) | a[i] as u64;
        q[i] = (cur / d as u64) as u32;
        rem = cur % d as u64;
    }
    trim(&mut q);
    (q, rem as u32)
}

// truncated division of magnitudes
fn divrem_mag(a: &[u32], b: &[u32]) -> (Vec<u32>, Vec<u32>) {
    assert!(!b.is_empty(), "division by zero");
    if cmp_mag(a, b) == Ordering::Less {
        return (vec![], a.to_vec());
    }
    if let (Some(x), Some(y)) = (to_u128(a), to_u128(b)) {
        return (from_u128(x / y), from_u128(x % y));
    }
    if b.len() == 1 {
        let (q, r) = divrem_small(a, b[0]);
        return (q, if r == 0 { vec![] } else { vec![r] });
    }
    // shift-subtract long division
    let shift = bits_mag(a) - bits_mag(b);
    let mut rem = a.to_vec();
    let mut q = vec![0u32; shift / 32 + 1];
    let mut d = shl_mag(b, shift);
    for s in (0..=shift).rev() {
        if cmp_mag(&rem, &d) != Ordering::Less {
            rem = sub_mag(&rem, &d);
            q[s / 32] |= 1 << (s % 32);
        }
        d = shr_mag(&d, 1);
    }
    trim(&mut q);
    (q, rem)
}

fn gcd_u128(mut a: u128, mut b: u128) -> u128 {
    while b != 0 {
        let t = a % b;
        a = b;
        b = t;
    }
    a
}

fn gcd_mag(a: &[u32], b: &[u32]) -> Vec<u32> {
    let mut a = a.to_vec();
    let mut b = b.to_vec();
    loop {
        if b.is_empty() {
            return a;
        }
        if let (Some(x), Some(y)) = (to_u128(&a), to_u128(&b)) {
            return from_u128(gcd_u128(x, y));
        }
        let (_, r) = divrem_mag(&a, &b);
        a = b;
        b = r;
    }
}

impl BigInt {
    pub fn zero() -> BigInt {
        BigInt { neg: false, mag: vec![] }
    }
    pub fn one() -> BigInt {
        BigInt::from_i128(1)
    }
    fn mk(neg: bool, mut mag: Vec<u32>) -> BigInt {
        trim(&mut mag);
        let neg = neg && !mag.is_empty();
        BigInt { neg, mag }
    }
    pub fn from_i128(x: i128) -> BigInt {
        BigInt::mk(x < 0, from_u128(x.unsigned_abs()))
    }
    pub fn from_u128(x: u128) -> BigInt {
        BigInt::mk(false, from_u128(x))
    }
    pub fn to_i128(&self) -> Option<i128> {
        let m = to_u128(&self.mag)?;
        if self.neg {
            if m <= (i128::MAX as u128) + 1 {
                Some((m as i128).wrapping_neg())
            } else {
                None
            }
        } else if m <= i128::MAX as u128 {
            Some(m as i128)
        } else {
            None
        }
    }
    pub fn is_zero(&self) -> bool {
        self.mag.is_empty()
    }
    pub fn is_neg(&self) -> bool {
        self.neg
    }
    pub fn signum(&self) -> i32 {
        if self.mag.is_empty() {
            0
        } else if self.neg {
            -1
        } else {
            1
        }
    }
    pub fn neg(&self) -> BigInt {
        BigInt::mk(!self.neg, self.mag.clone())
    }
    pub fn abs(&self) -> BigInt {
        BigInt::mk(false, self.mag.clone())
    }
    pub fn bits(&self) -> usize {
        bits_mag(&self.mag)
    }
    pub fn add(&self, o: &BigInt) -> BigInt {
        if self.neg == o.neg {
            BigInt::mk(self.neg, add_mag(&self.mag, &o.mag))
        } else {
            match cmp_mag(&self.mag, &o.mag) {
                Ordering::Equal => BigInt::zero(),
                Ordering::Greater => BigInt::mk(self.neg, sub_mag(&self.mag, &o.mag)),
                Ordering::Less => BigInt::mk(o.neg, sub_mag(&o.mag, &self.mag)),
            }
        }
    }
    pub fn sub(&self, o: &BigInt) -> BigInt {
        self.add(&o.neg())
    }
    pub fn mul(&self, o: &BigInt) -> BigInt {
        BigInt::mk(self.neg != o.neg, mul_mag(&self.mag, &o.mag))
    }
    /// truncated division (quotient rounds toward zero, remainder has the sign of self)
    pub fn divrem(&self, o: &BigInt) -> (BigInt, BigInt) {
        let (q, r) = divrem_mag(&self.mag, &o.mag);
        (BigInt::mk(self.neg != o.neg, q), BigInt::mk(self.neg, r))
    }
    pub fn gcd(&self, o: &BigInt) -> BigInt {
        BigInt::mk(false, gcd_mag(&self.mag, &o.mag))
    }
    pub fn shl(&self, n: usize) -> BigInt {
        BigInt::mk(self.neg, shl_mag(&self.mag, n))
    }
    pub fn pow(&self, mut e: u32) -> BigInt {
        let mut base = self.clone();
        let mut r = BigInt::one();
        while e > 0 {
            if e & 1 == 1 {
                r = r.mul(&base);
            }
            base = base.mul(&base);
            e >>= 1;
        }
        r
    }
    /// exact integer square root, if self is a perfect square
    pub fn exact_sqrt(&self) -> Option<BigInt> {
        if self.neg {
            return None;
        }
        if self.is_zero() {
            return Some(BigInt::zero());
        }
        // Newton iteration from above
        let mut x = BigInt::one().shl((self.bits() + 1) / 2);
        loop {
            let (q, _) = self.divrem(&x);
            let y = x.add(&q);
            let y = BigInt::mk(false, shr_mag(&y.mag, 1));
            if y.cmp(&x) != Ordering::Less {
                break;
            }
            x = y;
        }
        if x.mul(&x) == *self {
            Some(x)
        } else {
            None
        }
    }
    pub fn parse(s: &str) -> BigInt {
        let (neg, digits) = if let Some(r) = s.strip_prefix('-') { (true, r) } else { (false, s) };
        let mut r = BigInt::zero();
        let ten9 = BigInt::from_i128(1_000_000_000);
        let bytes = digits.as_bytes();
        let mut i = 0;
        while i < bytes.len() {
            let j = (i + 9).min(bytes.len());
            let chunk: i128 = digits[i..j].parse().expect("digit");
            let scale = if j - i == 9 { ten9.clone() } else { BigInt::from_i128(10i128.pow((j - i) as u32)) };
            r = r.mul(&scale).add(&BigInt::from_i128(chunk));
            i = j;
        }
        if neg {
            r.neg()
        } else {
            r
        }
    }
    pub fn to_f64(&self) -> f64 {
        let mut r = 0f64;
        for i in (0..self.mag.len()).rev() {
            r = r * 4294967296.0 + self.mag[i] as f64;
        }
        if self.neg {
            -r
        } else {
            r
        }
    }
}

impl Ord for BigInt {
    fn cmp(&self, o: &BigInt) -> Ordering {
        match (self.neg, o.neg) {
            (false, true) => Ordering::Greater,
            (true, false) => Ordering::Less,
            (false, false) => cmp_mag(&self.mag, &o.mag),
            (true, true) => cmp_mag(&o.mag, &self.mag),
        }
    }
}
impl PartialOrd for BigInt {
    fn partial_cmp(&self, o: &BigInt) -> Option<Ordering> {
        Some(self.cmp(o))
    }
}

impl fmt::Display for BigInt {
    fn fmt(&self, f: &mut fmt::Formatter) -> fmt::Result {
        if self.mag.is_empty() {
            return write!(f, "0");
        }
        let mut parts = vec![];
        let mut cur = self.mag.clone();
        while !cur.is_empty() {
            let (q, r) = divrem_small(&cur, 1_000_000_000);
            parts.push(r);
            cur = q;
        }
        let mut s = String::new();
        if self.neg {
            s.push('-');
        }
        s.push_str(&format!("{}", parts[parts.len() - 1]));
        for p in parts.iter().rev().skip(1) {
            s.push_str(&format!("{:09}", p));
        }
        write!(f, "{}", s)
    }
}
impl fmt::Debug for BigInt {
    fn fmt(&self, f: &mut fmt::Formatter) -> fmt::Result {
        write!(f, "{}", self)
    }
}

/// Rational in lowest terms with positive denominator.
#[derive(Clone, PartialEq, Eq, Hash)]
pub struct BigRat {
    pub n: BigInt,
    pub d: BigInt,
}

impl BigRat {
    pub fn new(n: BigInt, d: BigInt) -> BigRat {
        assert!(!d.is_zero(), "division by zero");
        let g = n.gcd(&d);
        let (mut n, mut d) = if g == BigInt::one() { (n, d) } else { (n.divrem(&g).0, d.divrem(&g).0) };
        if d.is_neg() {
            n = n.neg();
            d = d.neg();
        }
        BigRat { n, d }
    }
    pub fn from_i(n: i128, d: i128) -> BigRat {
        BigRat::new(BigInt::from_i128(n), BigInt::from_i128(d))
    }
    pub fn int(n: i128) -> BigRat {
        BigRat { n: BigInt::from_i128(n), d: BigInt::one() }
    }
    pub fn zero() -> BigRat {
        BigRat::int(0)
    }
    pub fn one() -> BigRat {
        BigRat::int(1)
    }
    pub fn is_zero(&self) -> bool {
        self.n.is_zero()
    }
    pub fn is_neg(&self) -> bool {
        self.n.is_neg()
    }
    pub fn is_int(&self) -> bool {
        self.d == BigInt::one()
    }
    pub fn add(&self, o: &BigRat) -> BigRat {
        if self.d == o.d {
            return BigRat::new(self.n.add(&o.n), self.d.clone());
        }
        BigRat::new(self.n.mul(&o.d).add(&o.n.mul(&self.d)), self.d.mul(&o.d))
    }
    pub fn neg(&self) -> BigRat {
        BigRat { n: self.n.neg(), d: self.d.clone() }
    }
    pub fn sub(&self, o: &BigRat) -> BigRat {
        self.add(&o.neg())
    }
    pub fn mul(&self, o: &BigRat) -> BigRat {
        BigRat::new(self.n.mul(&o.n), self.d.mul(&o.d))
    }
    pub fn recip(&self) -> BigRat {
        assert!(!self.n.is_zero(), "division by zero");
        BigRat::new(self.d.clone(), self.n.clone())
    }
    pub fn div(&self, o: &BigRat) -> BigRat {
        assert!(!o.n.is_zero(), "division by zero");
        BigRat::new(self.n.mul(&o.d), self.d.mul(&o.n))
    }
    pub fn abs(&self) -> BigRat {
        BigRat { n: self.n.abs(), d: self.d.clone() }
    }
    /// integer part, rounding toward zero
    pub fn trunc(&self) -> BigInt {
        self.n.divrem(&self.d).0
    }
    pub fn floor(&self) -> BigInt {
        let (q, r) = self.n.divrem(&self.d);
        if r.is_neg() {
            q.sub(&BigInt::one())
        } else {
            q
        }
    }
    /// fmod: self - o * trunc(self / o)
    pub fn rem(&self, o: &BigRat) -> BigRat {
        let q = self.div(o).trunc();
        self.sub(&o.mul(&BigRat { n: q, d: BigInt::one() }))
    }
    pub fn exact_sqrt(&self) -> Option<BigRat> {
        let n = self.n.exact_sqrt()?;
        let d = self.d.exact_sqrt()?;
        Some(BigRat { n, d })
    }
    pub fn pow(&self, e: i32) -> BigRat {
        if e >= 0 {
            BigRat { n: self.n.pow(e as u32), d: self.d.pow(e as u32) }
        } else {
            self.recip().pow(-e)
        }
    }
    /// exact value of a finite f64
    pub fn from_f64(x: f64) -> BigRat {
        assert!(x.is_finite(), "non-finite f64");
        let bits = x.to_bits();
        let sign = bits >> 63 != 0;
        let exp = ((bits >> 52) & 0x7ff) as i64;
        let frac = bits & ((1u64 << 52) - 1);
        let (m, e) = if exp == 0 { (frac, -1074i64) } else { (frac | (1u64 << 52), exp - 1075) };
        let mut n = BigInt::from_u128(m as u128);
        if sign {
            n = n.neg();
        }
        if e >= 0 {
            BigRat::new(n.shl(e as usize), BigInt::one())
        } else {
            BigRat::new(n, BigInt::one().shl((-e) as usize))
        }
    }
    pub fn to_f64(&self) -> f64 {
        // adequate for diagnostics and for ToPrimitive; not used for comparisons
        let nb = self.n.bits() as i64;
        let db = self.d.bits() as i64;
        if nb < 1000 && db < 1000 {
            self.n.to_f64() / self.d.to_f64()
        } else {
            // scale down both
            let sh = (nb.max(db) - 900).max(0) as usize;
            let n = BigInt::mk(self.n.is_neg(), shr_mag(&self.n.mag, sh));
            let d = BigInt::mk(false, shr_mag(&self.d.mag, sh));
            if d.is_zero() {
                f64::INFINITY
            } else {
                n.to_f64() / d.to_f64()
            }
        }
    }
    pub fn parse(s: &str) -> BigRat {
        match s.split_once('/') {
            Some((n, d)) => BigRat::new(BigInt::parse(n), BigInt::parse(d)),
            None => BigRat::new(BigInt::parse(s), BigInt::one()),
        }
    }
}

impl Ord for BigRat {
    fn cmp(&self, o: &BigRat) -> Ordering {
        if self.d == o.d {
            return self.n.cmp(&o.n);
        }
        self.n.mul(&o.d).cmp(&o.n.mul(&self.d))
    }
}
impl PartialOrd for BigRat {
    fn partial_cmp(&self, o: &BigRat) -> Option<Ordering> {
        Some(self.cmp(o))
    }
}
impl fmt::Display for BigRat {
    fn fmt(&self, f: &mut fmt::Formatter) -> fmt::Result {
        if self.is_int() {
            write!(f, "{}", self.n)
        } else {
            write!(f, "{}/{}", self.n, self.d)
        }
    }
}
impl fmt::Debug for BigRat {
    fn fmt(&self, f: &mut fmt::Formatter) -> fmt::Result {
        write!(f, "{}", self)
    }
}

#[cfg(test)]
mod tests {
    use super::*;
    #[test]
    fn arith() {
        let a = BigInt::parse("123456789012345678901234567890123456789012345678901234567890");
        let b = BigInt::parse("987654321098765432109876543210");
        let p = a.mul(&b);
        let (q, r) = p.add(&BigInt::from_i128(17)).divrem(&b);
        assert_eq!(q, a);
        assert_eq!(r, BigInt::from_i128(17));
        assert_eq!(format!("{}", a), "123456789012345678901234567890123456789012345678901234567890");
        assert_eq!(a.mul(&a).exact_sqrt(), Some(a.clone()));
        assert_eq!(a.mul(&a).add(&BigInt::one()).exact_sqrt(), None);
        assert_eq!(p.gcd(&b.mul(&BigInt::from_i128(6))), b.mul(&BigInt::from_i128(if a.divrem(&BigInt::from_i128(6)).1.is_zero() {6} else {a.gcd(&BigInt::from_i128(6)).to_i128().unwrap()})));
        let x = BigRat::from_i(-7, 3);
        assert_eq!(x.trunc(), BigInt::from_i128(-2));
        assert_eq!(x.floor(), BigInt::from_i128(-3));
        assert_eq!(x.rem(&BigRat::from_i(1, 2)), BigRat::from_i(-1, 3));
        assert_eq!(BigRat::from_f64(0.5), BigRat::from_i(1, 2));
        assert_eq!(BigRat::from_f64(-3.75), BigRat::from_i(-15, 4));
        let big = BigRat::new(BigInt::from_i128(257).pow(30), BigInt::from_i128(255).pow(29));
        let s = big.mul(&big);
        assert_eq!(s.exact_sqrt(), Some(big.clone()));
        assert_eq!(s.div(&big), big);
        assert_eq!(big.sub(&big), BigRat::zero());
    }
}
