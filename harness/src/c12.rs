//! C12 — points as an affine space over vectors (src/point.rs, EuclideanSpace in src/structure.rs).
use crate::bigrat::BigRat;
use crate::core::*;
use crate::xq::Xq;
use cgmath::*;

fn chk(ok: bool, what: &str) -> Result<(), String> {
    if ok { Ok(()) } else { Err(what.to_string()) }
}

macro_rules! dim_cases {
    ($ctx:ident, $n:expr, $P:ident, $V:ident, $mkp:ident, $mkv:ident, $pfx:expr) => {{
        let n: usize = $n;
        for _ in 0..20 * $ctx.scale {
            let i = $ctx.generic(2 * n + 1);
            let nm = |s: &str| format!("{}_{}", $pfx, s);
            let two = &i[..2 * n];
            let ps = { let mut t = i[..n].to_vec(); t.push(i[2 * n].clone()); t };
            let one = &i[..n];
            $ctx.case(&nm("add_v"), "generic", two, &|| (), &|x| $mkp(&x[..n]) + $mkv(&x[n..]));
            $ctx.case(&nm("sub_v"), "generic", two, &|| (), &|x| $mkp(&x[..n]) - $mkv(&x[n..]));
            $ctx.case(&nm("sub_p"), "generic", two, &|| (), &|x| $mkp(&x[..n]) - $mkp(&x[n..]));
            $ctx.case(&nm("mul_s"), "generic", &ps, &|| (), &|x| $mkp(&x[..n]) * x[n]);
            $ctx.case(&nm("div_s"), "generic", &ps, &|| (), &|x| $mkp(&x[..n]) / x[n]);
            $ctx.case(&nm("rem_s"), "generic", &ps, &|| (), &|x| $mkp(&x[..n]) % x[n]);
            $ctx.case(&nm("add_v_assign"), "generic", two, &|| (), &|x| { let mut p = $mkp(&x[..n]); p += $mkv(&x[n..]); p });
            $ctx.case(&nm("sub_v_assign"), "generic", two, &|| (), &|x| { let mut p = $mkp(&x[..n]); p -= $mkv(&x[n..]); p });
            $ctx.case(&nm("mul_s_assign"), "generic", &ps, &|| (), &|x| { let mut p = $mkp(&x[..n]); p *= x[n]; p });
            $ctx.case(&nm("div_s_assign"), "generic", &ps, &|| (), &|x| { let mut p = $mkp(&x[..n]); p /= x[n]; p });
            $ctx.case(&nm("rem_s_assign"), "generic", &ps, &|| (), &|x| { let mut p = $mkp(&x[..n]); p %= x[n]; p });
            $ctx.case(&nm("add_ew"), "generic", two, &|| (), &|x| $mkp(&x[..n]).add_element_wise($mkp(&x[n..])));
            $ctx.case(&nm("sub_ew"), "generic", two, &|| (), &|x| $mkp(&x[..n]).sub_element_wise($mkp(&x[n..])));
            $ctx.case(&nm("mul_ew"), "generic", two, &|| (), &|x| $mkp(&x[..n]).mul_element_wise($mkp(&x[n..])));
            $ctx.case(&nm("div_ew"), "generic", two, &|| (), &|x| $mkp(&x[..n]).div_element_wise($mkp(&x[n..])));
            $ctx.case(&nm("rem_ew"), "generic", two, &|| (), &|x| $mkp(&x[..n]).rem_element_wise($mkp(&x[n..])));
            $ctx.case(&nm("add_ews"), "generic", &ps, &|| (), &|x| $mkp(&x[..n]).add_element_wise(x[n]));
            $ctx.case(&nm("sub_ews"), "generic", &ps, &|| (), &|x| $mkp(&x[..n]).sub_element_wise(x[n]));
            $ctx.case(&nm("mul_ews"), "generic", &ps, &|| (), &|x| $mkp(&x[..n]).mul_element_wise(x[n]));
            $ctx.case(&nm("div_ews"), "generic", &ps, &|| (), &|x| $mkp(&x[..n]).div_element_wise(x[n]));
            $ctx.case(&nm("rem_ews"), "generic", &ps, &|| (), &|x| $mkp(&x[..n]).rem_element_wise(x[n]));
            $ctx.case(&nm("from_vec"), "generic", one, &|| (), &|x| $P::from_vec($mkv(x)));
            $ctx.case(&nm("to_vec"), "generic", one, &|| (), &|x| $mkp(x).to_vec());
            $ctx.case(&nm("dot"), "generic", two, &|| (), &|x| $mkp(&x[..n]).dot($mkv(&x[n..])));
            $ctx.case(&nm("sum"), "generic", one, &|| (), &|x| $mkp(x).sum());
            $ctx.case(&nm("product"), "generic", one, &|| (), &|x| $mkp(x).product());
            $ctx.case(&nm("from_value"), "generic", &i[..1], &|| (), &|x| $P::from_value(x[0]));
            $ctx.case(&nm("midpoint"), "generic", two, &|| (), &|x| $mkp(&x[..n]).midpoint($mkp(&x[n..])));
            $ctx.case(&nm("distance2"), "generic", two, &|| (), &|x| $mkp(&x[..n]).distance2($mkp(&x[n..])));
        }
        let nm = |s: &str| format!("{}_{}", $pfx, s);
        $ctx.case(&nm("origin"), "const", &[], &|| (), &|_| $P::<Xq>::origin());
        // centroid of lists of length 1..40 (the empty list divides by cast(0): outside the property)
        for len in (1..=12usize).chain([17usize, 25, 40]) {
            let mut inp = vec![];
            for _ in 0..len { inp.extend($ctx.generic(n)); }
            $ctx.case(&nm("centroid"), "nt:list", &inp, &|| (), &|x| {
                let pts: Vec<$P<Xq>> = x.chunks(n).map(|c| $mkp(c)).collect();
                $P::centroid(&pts)
            });
        }
    }};
}

pub fn cases(ctx: &mut Ctx) {
    dim_cases!(ctx, 1, Point1, Vector1, p1, v1, "p1");
    dim_cases!(ctx, 2, Point2, Vector2, p2, v2, "p2");
    dim_cases!(ctx, 3, Point3, Vector3, p3, v3, "p3");
    for _ in 0..40 * ctx.scale {
        let g = ctx.generic(4);
        ctx.case("p3_to_homogeneous", "generic", &g[..3], &|| (), &|x| p3(x).to_homogeneous());
        ctx.case("p3_from_homogeneous", "generic", &g, &|| (), &|x| Point3::from_homogeneous(v4(x)));
    }
    // native integers against the Z instance
    for _ in 0..10 * ctx.scale {
        let iv = ctx.small_ints(7, 50);
        let q = |ks: &[usize]| -> Vec<BigRat> { ks.iter().map(|&k| BigRat::int(iv[k] as i128)).collect() };
        let t = |k: usize| iv[k] as i32;
        let o = |l: Vec<i32>| Out::Q(l.iter().map(|&v| BigRat::int(v as i128)).collect());
        let (p, pq, v) = (Point3::new(t(0), t(1), t(2)), Point3::new(t(3), t(4), t(5)), Vector3::new(t(3), t(4), t(5)));
        let mk = |f: &str, inp: Vec<BigRat>, out: Out| Case { f: format!("z:{}", f), inp, orc: Default::default(), out, tag: "i32".into() };
        ctx.cases.push(mk("p3_add_v", q(&[0,1,2,3,4,5]), { let r = p + v; o(vec![r.x, r.y, r.z]) }));
        ctx.cases.push(mk("p3_sub_v", q(&[0,1,2,3,4,5]), { let r = p - v; o(vec![r.x, r.y, r.z]) }));
        ctx.cases.push(mk("p3_sub_p", q(&[0,1,2,3,4,5]), { let r = p - pq; o(vec![r.x, r.y, r.z]) }));
        ctx.cases.push(mk("p3_dot", q(&[0,1,2,3,4,5]), o(vec![p.dot(v)])));
        ctx.cases.push(mk("p3_div_s", q(&[0,1,2,6]), { let r = p / t(6); o(vec![r.x, r.y, r.z]) }));
        ctx.cases.push(mk("p3_rem_s", q(&[0,1,2,6]), { let r = p % t(6); o(vec![r.x, r.y, r.z]) }));
        ctx.cases.push(mk("p2_mul_s", q(&[0,1,6]), { let r = Point2::new(t(0), t(1)) * t(6); o(vec![r.x, r.y]) }));
    }
}

macro_rules! dim_preds {
    ($ctx:ident, $n:expr, $P:ident, $V:ident, $mkp:ident, $mkv:ident, $pfx:expr) => {{
        let n: usize = $n;
        for _ in 0..40 * $ctx.scale {
            let i = $ctx.generic(4 * n + 1);
            let nm = |s: &str| format!("{}:{}", $pfx, s);
            $ctx.pred(&nm("affine"), &i, &|| (), &|x| {
                let (p, q, v, w, s) = ($mkp(&x[..n]), $mkp(&x[n..2 * n]), $mkv(&x[2 * n..3 * n]), $mkv(&x[3 * n..4 * n]), x[4 * n]);
                chk((p + v) - p == v, "(p + v) - p = v")?;
                chk(p + (q - p) == q, "p + (q - p) = q")?;
                chk((p + v) + w == p + (v + w), "(p + v) + w = p + (v + w)")?;
                chk(p - v == p + (-v), "p - v = p + (-v)")?;
                chk($P::from_vec(p.to_vec()) == p && $P::from_vec(v).to_vec() == v, "to_vec/from_vec inverse")?;
                chk($P::<Xq>::origin().to_vec() == $V::zero(), "origin maps to zero")?;
                let mut d = Xq::q(0, 1);
                for k in 0..n {
                    chk((p * s)[k] == p[k] * s && (p / s)[k] == p[k] / s && (p % s)[k] == p[k] % s, "scaling component-wise")?;
                    chk(p.add_element_wise(q)[k] == p[k] + q[k] && p.sub_element_wise(q)[k] == p[k] - q[k]
                        && p.mul_element_wise(q)[k] == p[k] * q[k] && p.div_element_wise(q)[k] == p[k] / q[k]
                        && p.rem_element_wise(q)[k] == p[k] % q[k], "element-wise (point)")?;
                    chk(p.add_element_wise(s)[k] == p[k] + s && p.sub_element_wise(s)[k] == p[k] - s
                        && p.mul_element_wise(s)[k] == p[k] * s && p.div_element_wise(s)[k] == p[k] / s
                        && p.rem_element_wise(s)[k] == p[k] % s, "element-wise (scalar)")?;
                    d = d + p[k] * v[k];
                }
                chk(p.dot(v) == d, "point-vector dot")?;
                let two = Xq::q(2, 1);
                chk(p.midpoint(q) == p + (q - p) / two, "midpoint = p + (q - p)/2")
            });
        }
        for len in [1usize, 2, 3, 5, 8, 13, 21, 34] {
            let mut inp = vec![];
            for _ in 0..len { inp.extend($ctx.generic(n)); }
            $ctx.pred(&format!("{}:centroid", $pfx), &inp, &|| (), &|x| {
                let pts: Vec<$P<Xq>> = x.chunks(n).map(|c| $mkp(c)).collect();
                let mut s = $V::<Xq>::zero();
                for p in &pts { s = s + p.to_vec(); }
                let cnt = Xq::q(pts.len() as i128, 1);
                chk($P::centroid(&pts).to_vec() == s / cnt, "centroid = sum of position vectors / n")
            });
        }
    }};
}

pub fn preds(ctx: &mut Ctx) {
    dim_preds!(ctx, 1, Point1, Vector1, p1, v1, "p1");
    dim_preds!(ctx, 2, Point2, Vector2, p2, v2, "p2");
    dim_preds!(ctx, 3, Point3, Vector3, p3, v3, "p3");
    for _ in 0..60 * ctx.scale {
        let g = ctx.generic(4);
        ctx.pred("p3:homogeneous", &g, &|| (), &|x| {
            let (p, k) = (p3(x), x[3]);
            chk(p.to_homogeneous() == Vector4::new(p.x, p.y, p.z, Xq::q(1, 1)), "to_homogeneous appends 1")?;
            chk(Point3::from_homogeneous(p.to_homogeneous() * k) == p, "from_homogeneous(k * to_homogeneous(p)) = p")
        });
    }
}
