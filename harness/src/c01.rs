//! C01 — column-major, column-vector convention (src/matrix.rs).
use crate::bigrat::BigRat;
use crate::core::*;
use crate::xq::Xq;
use cgmath::*;

fn idx(k: i128) -> BigRat {
    BigRat::int(k)
}
fn ix(x: Xq) -> usize {
    let r = x.rat();
    // indices travel as integral rationals; usize::MAX stands for "huge"
    match r.n.to_i128() {
        Some(v) if v >= 0 && v < 1_000_000 => v as usize,
        _ => usize::MAX,
    }
}
fn zero() -> Xq {
    Xq::q(0, 1)
}
fn chk(ok: bool, what: &str) -> Result<(), String> {
    if ok { Ok(()) } else { Err(what.to_string()) }
}

pub fn cases(ctx: &mut Ctx) {
    let reps = 16 * ctx.scale;
    for _ in 0..reps {
        let g = ctx.generic(36);
        let (a2, b2, a3, b3, a4, b4) = (&g[0..4], &g[4..8], &g[0..9], &g[9..18], &g[0..16], &g[16..32]);
        ctx.case("m2_new", "generic", a2, &|| (), &|x| m2(x));
        ctx.case("m3_new", "generic", a3, &|| (), &|x| m3(x));
        ctx.case("m4_new", "generic", a4, &|| (), &|x| m4(x));
        ctx.case("m2_from_cols", "generic", a2, &|| (), &|x| Matrix2::from_cols(v2(&x[0..2]), v2(&x[2..4])));
        ctx.case("m3_from_cols", "generic", a3, &|| (), &|x| Matrix3::from_cols(v3(&x[0..3]), v3(&x[3..6]), v3(&x[6..9])));
        ctx.case("m4_from_cols", "generic", a4, &|| (), &|x| Matrix4::from_cols(v4(&x[0..4]), v4(&x[4..8]), v4(&x[8..12]), v4(&x[12..16])));
        ctx.case("m2_transpose", "generic", a2, &|| (), &|x| m2(x).transpose());
        ctx.case("m3_transpose", "generic", a3, &|| (), &|x| m3(x).transpose());
        ctx.case("m4_transpose", "generic", a4, &|| (), &|x| m4(x).transpose());
        ctx.case("m2_diagonal", "generic", a2, &|| (), &|x| m2(x).diagonal());
        ctx.case("m3_diagonal", "generic", a3, &|| (), &|x| m3(x).diagonal());
        ctx.case("m4_diagonal", "generic", a4, &|| (), &|x| m4(x).diagonal());
        ctx.case("m2_trace", "generic", a2, &|| (), &|x| m2(x).trace());
        ctx.case("m3_trace", "generic", a3, &|| (), &|x| m3(x).trace());
        ctx.case("m4_trace", "generic", a4, &|| (), &|x| m4(x).trace());
        ctx.case("m2_from_value", "generic", &g[0..1], &|| (), &|x| Matrix2::from_value(x[0]));
        ctx.case("m3_from_value", "generic", &g[0..1], &|| (), &|x| Matrix3::from_value(x[0]));
        ctx.case("m4_from_value", "generic", &g[0..1], &|| (), &|x| Matrix4::from_value(x[0]));
        ctx.case("m2_from_diagonal", "generic", &g[0..2], &|| (), &|x| Matrix2::from_diagonal(v2(x)));
        ctx.case("m3_from_diagonal", "generic", &g[0..3], &|| (), &|x| Matrix3::from_diagonal(v3(x)));
        ctx.case("m4_from_diagonal", "generic", &g[0..4], &|| (), &|x| Matrix4::from_diagonal(v4(x)));
        ctx.case("m3_from_translation", "generic", &g[0..2], &|| (), &|x| Matrix3::from_translation(v2(x)));
        ctx.case("m4_from_translation", "generic", &g[0..3], &|| (), &|x| Matrix4::from_translation(v3(x)));
        ctx.case("m3_from_scale", "generic", &g[0..1], &|| (), &|x| Matrix3::from_scale(x[0]));
        ctx.case("m4_from_scale", "generic", &g[0..1], &|| (), &|x| Matrix4::from_scale(x[0]));
        ctx.case("m3_from_nonuniform_scale", "generic", &g[0..2], &|| (), &|x| Matrix3::from_nonuniform_scale(x[0], x[1]));
        ctx.case("m4_from_nonuniform_scale", "generic", &g[0..3], &|| (), &|x| Matrix4::from_nonuniform_scale(x[0], x[1], x[2]));
        ctx.case("m3_of_m2", "generic", a2, &|| (), &|x| Matrix3::from(m2(x)));
        ctx.case("m4_of_m2", "generic", a2, &|| (), &|x| Matrix4::from(m2(x)));
        ctx.case("m4_of_m3", "generic", a3, &|| (), &|x| Matrix4::from(m3(x)));
        ctx.case("m2_mul_v", "generic", &g[0..6], &|| (), &|x| m2(x) * v2(&x[4..6]));
        ctx.case("m3_mul_v", "generic", &g[0..12], &|| (), &|x| m3(x) * v3(&x[9..12]));
        ctx.case("m4_mul_v", "generic", &g[0..20], &|| (), &|x| m4(x) * v4(&x[16..20]));
        ctx.case("m2_mul", "generic", &g[0..8], &|| (), &|x| m2(x) * m2(&x[4..]));
        ctx.case("m3_mul", "generic", &g[0..18], &|| (), &|x| m3(x) * m3(&x[9..]));
        ctx.case("m4_mul", "generic", &g[0..32], &|| (), &|x| m4(x) * m4(&x[16..]));
        ctx.case("m2_add", "generic", &g[0..8], &|| (), &|x| m2(x) + m2(&x[4..]));
        ctx.case("m3_add", "generic", &g[0..18], &|| (), &|x| m3(x) + m3(&x[9..]));
        ctx.case("m4_add", "generic", &g[0..32], &|| (), &|x| m4(x) + m4(&x[16..]));
        ctx.case("m2_sub", "generic", &g[0..8], &|| (), &|x| m2(x) - m2(&x[4..]));
        ctx.case("m3_sub", "generic", &g[0..18], &|| (), &|x| m3(x) - m3(&x[9..]));
        ctx.case("m4_sub", "generic", &g[0..32], &|| (), &|x| m4(x) - m4(&x[16..]));
        ctx.case("m2_neg", "generic", a2, &|| (), &|x| -m2(x));
        ctx.case("m3_neg", "generic", a3, &|| (), &|x| -m3(x));
        ctx.case("m4_neg", "generic", a4, &|| (), &|x| -m4(x));
        ctx.case("m2_mul_s", "generic", &g[0..5], &|| (), &|x| m2(x) * x[4]);
        ctx.case("m3_mul_s", "generic", &g[0..10], &|| (), &|x| m3(x) * x[9]);
        ctx.case("m4_mul_s", "generic", &g[0..17], &|| (), &|x| m4(x) * x[16]);
        ctx.case("m2_div_s", "generic", &g[0..5], &|| (), &|x| m2(x) / x[4]);
        ctx.case("m3_div_s", "generic", &g[0..10], &|| (), &|x| m3(x) / x[9]);
        ctx.case("m4_div_s", "generic", &g[0..17], &|| (), &|x| m4(x) / x[16]);
        ctx.case("m2_rem_s", "generic", &g[0..5], &|| (), &|x| m2(x) % x[4]);
        ctx.case("m3_rem_s", "generic", &g[0..10], &|| (), &|x| m3(x) % x[9]);
        ctx.case("m4_rem_s", "generic", &g[0..17], &|| (), &|x| m4(x) % x[16]);
        ctx.case("m3_transform_vector2", "generic", &g[0..11], &|| (), &|x| Transform::<Point2<Xq>>::transform_vector(&m3(x), v2(&x[9..11])));
        ctx.case("m3_transform_point2", "generic", &g[0..11], &|| (), &|x| Transform::<Point2<Xq>>::transform_point(&m3(x), p2(&x[9..11])));
        ctx.case("m3_transform_vector3", "generic", &g[0..12], &|| (), &|x| Transform::<Point3<Xq>>::transform_vector(&m3(x), v3(&x[9..12])));
        ctx.case("m3_transform_point3", "generic", &g[0..12], &|| (), &|x| Transform::<Point3<Xq>>::transform_point(&m3(x), p3(&x[9..12])));
        ctx.case("m4_transform_vector", "generic", &g[0..19], &|| (), &|x| m4(x).transform_vector(v3(&x[16..19])));
        ctx.case("m4_transform_point", "generic", &g[0..19], &|| (), &|x| m4(x).transform_point(p3(&x[16..19])));
        ctx.case("m3_concat", "generic", &g[0..18], &|| (), &|x| Transform::<Point3<Xq>>::concat(&m3(x), &m3(&x[9..])));
        ctx.case("m4_concat", "generic", &g[0..32], &|| (), &|x| m4(x).concat(&m4(&x[16..])));
        // the other instantiation of Transform for Matrix3 (2-D transforms), and the default concat_self of each impl
        ctx.case("m3_concat_2d", "generic", &g[0..18], &|| (), &|x| Transform::<Point2<Xq>>::concat(&m3(x), &m3(&x[9..])));
        ctx.case("m3_concat_self", "generic", &g[0..18], &|| (), &|x| { let mut a = m3(x); Transform::<Point3<Xq>>::concat_self(&mut a, &m3(&x[9..])); a });
        ctx.case("m3_concat_self_2d", "generic", &g[0..18], &|| (), &|x| { let mut a = m3(x); Transform::<Point2<Xq>>::concat_self(&mut a, &m3(&x[9..])); a });
        ctx.case("m4_concat_self", "generic", &g[0..32], &|| (), &|x| { let mut a = m4(x); a.concat_self(&m4(&x[16..])); a });
        let _ = (b2, b3, b4);
    }
    // affine Matrix4 acting on points (w = 1 exactly) and a Matrix4 sending a point to w = 0 (panic: division by zero)
    for _ in 0..8 * ctx.scale {
        let g = ctx.generic(16);
        let mut a: Vec<BigRat> = g[..16].to_vec();
        a[3] = BigRat::zero(); a[7] = BigRat::zero(); a[11] = BigRat::zero(); a[15] = BigRat::one();
        a.extend_from_slice(&ctx.generic(3));
        ctx.case("m4_transform_point", "nt:affine", &a, &|| (), &|x| m4(x).transform_point(p3(&x[16..19])));
    }
    // every index, in range and out of range
    let g = ctx.generic(16);
    for c in [0i128, 1, 2, 3, 4, 5, 18446744073709551615] {
        for (n, f) in [(2usize, "m2"), (3, "m3"), (4, "m4")] {
            let mut inp: Vec<BigRat> = g[..n * n].to_vec();
            inp.push(idx(c));
            match n {
                2 => { ctx.case("m2_col", "index", &inp, &|| (), &|x| m2(x)[ix(x[4])]); ctx.case("m2_row", "index", &inp, &|| (), &|x| m2(x).row(ix(x[4]))); }
                3 => { ctx.case("m3_col", "index", &inp, &|| (), &|x| m3(x)[ix(x[9])]); ctx.case("m3_row", "index", &inp, &|| (), &|x| m3(x).row(ix(x[9]))); }
                _ => { ctx.case("m4_col", "index", &inp, &|| (), &|x| m4(x)[ix(x[16])]); ctx.case("m4_row", "index", &inp, &|| (), &|x| m4(x).row(ix(x[16]))); }
            }
            let _ = f;
            for r in [0i128, 1, 2, 3, 4, 18446744073709551615] {
                let mut inp2 = inp.clone();
                inp2.push(idx(r));
                match n {
                    2 => ctx.case("m2_e", "index", &inp2, &|| (), &|x| m2(x)[ix(x[4])][ix(x[5])]),
                    3 => ctx.case("m3_e", "index", &inp2, &|| (), &|x| m3(x)[ix(x[9])][ix(x[10])]),
                    _ => ctx.case("m4_e", "index", &inp2, &|| (), &|x| m4(x)[ix(x[16])][ix(x[17])]),
                }
            }
        }
    }
    ctx.case("m2_identity", "const", &[], &|| (), &|_| Matrix2::<Xq>::identity());
    ctx.case("m3_identity", "const", &[], &|| (), &|_| Matrix3::<Xq>::identity());
    ctx.case("m4_identity", "const", &[], &|| (), &|_| Matrix4::<Xq>::identity());
    ctx.case("m2_zero", "const", &[], &|| (), &|_| Matrix2::<Xq>::zero());
    ctx.case("m3_zero", "const", &[], &|| (), &|_| Matrix3::<Xq>::zero());
    ctx.case("m4_zero", "const", &[], &|| (), &|_| Matrix4::<Xq>::zero());
}

pub fn preds(ctx: &mut Ctx) {
    for _ in 0..24 * ctx.scale {
        let g = ctx.generic(36);
        // element (c, r) is the r-th component of the c-th column; row/transpose/diagonal/trace
        ctx.pred("m4:layout", &g[..16], &|| (), &|x| {
            let m = m4(x);
            let mc = Matrix4::from_cols(v4(&x[0..4]), v4(&x[4..8]), v4(&x[8..12]), v4(&x[12..16]));
            chk(m == mc, "new = from_cols")?;
            let t = m.transpose();
            let mut tr = zero();
            for c in 0..4 { for r in 0..4 {
                chk(m[c][r] == x[4 * c + r], "element (c,r)")?;
                chk(m.row(r)[c] == x[4 * c + r], "row(r)[c]")?;
                chk(t[r][c] == m[c][r], "transpose")?;
            } chk(m.diagonal()[c] == m[c][c], "diagonal")?; tr = tr + m[c][c]; }
            chk(m.trace() == tr, "trace")
        });
        ctx.pred("m3:layout", &g[..9], &|| (), &|x| {
            let m = m3(x);
            chk(m == Matrix3::from_cols(v3(&x[0..3]), v3(&x[3..6]), v3(&x[6..9])), "new = from_cols")?;
            let t = m.transpose();
            let mut tr = zero();
            for c in 0..3 { for r in 0..3 {
                chk(m[c][r] == x[3 * c + r], "element (c,r)")?;
                chk(m.row(r)[c] == x[3 * c + r], "row(r)[c]")?;
                chk(t[r][c] == m[c][r], "transpose")?;
            } chk(m.diagonal()[c] == m[c][c], "diagonal")?; tr = tr + m[c][c]; }
            chk(m.trace() == tr, "trace")
        });
        ctx.pred("m2:layout", &g[..4], &|| (), &|x| {
            let m = m2(x);
            chk(m == Matrix2::from_cols(v2(&x[0..2]), v2(&x[2..4])), "new = from_cols")?;
            let t = m.transpose();
            let mut tr = zero();
            for c in 0..2 { for r in 0..2 {
                chk(m[c][r] == x[2 * c + r], "element (c,r)")?;
                chk(m.row(r)[c] == x[2 * c + r], "row(r)[c]")?;
                chk(t[r][c] == m[c][r], "transpose")?;
            } chk(m.diagonal()[c] == m[c][c], "diagonal")?; tr = tr + m[c][c]; }
            chk(m.trace() == tr, "trace")
        });
        // A*v = sum_c col_c(A) * v[c];  col_c(A*B) = A * col_c(B); ring laws; linear action
        ctx.pred("m4:products", &g[..36], &|| (), &|x| {
            let (a, b, v) = (m4(x), m4(&x[16..]), v4(&x[32..36]));
            chk(a * v == a[0] * v[0] + a[1] * v[1] + a[2] * v[2] + a[3] * v[3], "A*v = sum of scaled columns")?;
            let ab = a * b;
            for c in 0..4 { chk(ab[c] == a * b[c], "col c of A*B = A*(col c of B)")?; }
            chk(ab * v == a * (b * v), "(A*B)*v = A*(B*v)")?;
            chk((a + b) * v == a * v + b * v, "distributive action")?;
            chk(a * Matrix4::identity() == a && Matrix4::identity() * a == a, "identity")?;
            for c in 0..4 { for r in 0..4 {
                chk((a + b)[c][r] == a[c][r] + b[c][r], "sum element-wise")?;
                chk((a - b)[c][r] == a[c][r] - b[c][r], "difference element-wise")?;
                chk((-a)[c][r] == -a[c][r], "negation element-wise")?;
                chk((a * v[0])[c][r] == a[c][r] * v[0], "scalar multiple element-wise")?;
                chk((a / v[0])[c][r] == a[c][r] / v[0], "scalar quotient element-wise")?;
                chk((a % v[0])[c][r] == a[c][r] % v[0], "scalar remainder element-wise")?;
            } }
            Ok(())
        });
        ctx.pred("m3:products", &g[..21], &|| (), &|x| {
            let (a, b, v) = (m3(x), m3(&x[9..]), v3(&x[18..21]));
            chk(a * v == a[0] * v[0] + a[1] * v[1] + a[2] * v[2], "A*v = sum of scaled columns")?;
            let ab = a * b;
            for c in 0..3 { chk(ab[c] == a * b[c], "col c of A*B = A*(col c of B)")?; }
            chk(ab * v == a * (b * v), "(A*B)*v = A*(B*v)")?;
            chk(a * Matrix3::identity() == a && Matrix3::identity() * a == a, "identity")?;
            for c in 0..3 { for r in 0..3 {
                chk((a + b)[c][r] == a[c][r] + b[c][r], "sum element-wise")?;
                chk((a - b)[c][r] == a[c][r] - b[c][r], "difference element-wise")?;
                chk((-a)[c][r] == -a[c][r], "negation element-wise")?;
                chk((a * v[0])[c][r] == a[c][r] * v[0], "scalar multiple element-wise")?;
                chk((a / v[0])[c][r] == a[c][r] / v[0], "scalar quotient element-wise")?;
            } }
            Ok(())
        });
        ctx.pred("m2:products", &g[..10], &|| (), &|x| {
            let (a, b, v) = (m2(x), m2(&x[4..]), v2(&x[8..10]));
            chk(a * v == a[0] * v[0] + a[1] * v[1], "A*v = sum of scaled columns")?;
            let ab = a * b;
            for c in 0..2 { chk(ab[c] == a * b[c], "col c of A*B = A*(col c of B)")?; }
            chk(ab * v == a * (b * v), "(A*B)*v = A*(B*v)")?;
            chk(a * Matrix2::identity() == a && Matrix2::identity() * a == a, "identity")?;
            for c in 0..2 { for r in 0..2 {
                chk((a + b)[c][r] == a[c][r] + b[c][r], "sum element-wise")?;
                chk((a - b)[c][r] == a[c][r] - b[c][r], "difference element-wise")?;
                chk((-a)[c][r] == -a[c][r], "negation element-wise")?;
                chk((a * v[0])[c][r] == a[c][r] * v[0], "scalar multiple element-wise")?;
            } }
            Ok(())
        });
        // constructors by their action
        ctx.pred("m:constructors", &g[..16], &|| (), &|x| {
            let (t3, v3_, p3_) = (v3(&x[0..3]), v3(&x[3..6]), p3(&x[6..9]));
            let (t2, v2_, p2_) = (v2(&x[0..2]), v2(&x[3..5]), p2(&x[6..8]));
            let (sx, sy, sz, s) = (x[9], x[10], x[11], x[12]);
            let m = Matrix4::from_translation(t3);
            chk(m.transform_point(p3_) == p3_ + t3, "Matrix4::from_translation displaces points")?;
            chk(m.transform_vector(v3_) == v3_, "Matrix4::from_translation leaves vectors")?;
            let m = Matrix3::from_translation(t2);
            chk(Transform::<Point2<Xq>>::transform_point(&m, p2_) == p2_ + t2, "Matrix3::from_translation displaces points")?;
            chk(Transform::<Point2<Xq>>::transform_vector(&m, v2_) == v2_, "Matrix3::from_translation leaves vectors")?;
            let m = Matrix4::from_nonuniform_scale(sx, sy, sz);
            chk(m.transform_vector(v3_) == Vector3::new(sx * v3_.x, sy * v3_.y, sz * v3_.z), "Matrix4::from_nonuniform_scale")?;
            chk(m.transform_point(p3_) == Point3::new(sx * p3_.x, sy * p3_.y, sz * p3_.z), "Matrix4::from_nonuniform_scale (point)")?;
            chk(Matrix4::from_scale(s) == Matrix4::from_nonuniform_scale(s, s, s), "Matrix4::from_scale")?;
            let m = Matrix3::from_nonuniform_scale(sx, sy);
            chk(Transform::<Point2<Xq>>::transform_vector(&m, v2_) == Vector2::new(sx * v2_.x, sy * v2_.y), "Matrix3::from_nonuniform_scale")?;
            chk(Matrix3::from_scale(s) == Matrix3::from_nonuniform_scale(s, s), "Matrix3::from_scale")?;
            let w = v4(&x[0..4]);
            let d = v4(&x[4..8]);
            chk(Matrix4::from_value(s) * w == w * s, "from_value scales")?;
            chk(Matrix4::from_diagonal(d) * w == d.mul_element_wise(w), "from_diagonal scales per axis")?;
            chk(Matrix3::from_value(s) * v3_ == v3_ * s, "Matrix3::from_value")?;
            chk(Matrix3::from_diagonal(t3) * v3_ == t3.mul_element_wise(v3_), "Matrix3::from_diagonal")?;
            chk(Matrix2::from_value(s) * v2_ == v2_ * s, "Matrix2::from_value")?;
            chk(Matrix2::from_diagonal(t2) * v2_ == t2.mul_element_wise(v2_), "Matrix2::from_diagonal")?;
            // embeddings
            let a2 = m2(&x[0..4]);
            let a3 = m3(&x[0..9]);
            let e3: Matrix3<Xq> = a2.into();
            let e4: Matrix4<Xq> = a2.into();
            let f4: Matrix4<Xq> = a3.into();
            let one = Xq::q(1, 1);
            for c in 0..4 { for r in 0..4 {
                let dl = if c == r { one } else { zero() };
                if c < 3 && r < 3 { chk(e3[c][r] == if c < 2 && r < 2 { a2[c][r] } else { dl }, "Matrix2 -> Matrix3")?; }
                chk(e4[c][r] == if c < 2 && r < 2 { a2[c][r] } else { dl }, "Matrix2 -> Matrix4")?;
                chk(f4[c][r] == if c < 3 && r < 3 { a3[c][r] } else { dl }, "Matrix3 -> Matrix4")?;
            } }
            Ok(())
        });
    }
}
