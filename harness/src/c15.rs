//! C15 — Rotation::between_vectors (Quaternion, Basis3, Basis2) and Quaternion::from_arc.
use crate::bigrat::BigRat;
use crate::c11::{addv, cat, frame, q, scale};
use crate::core::*;
use crate::xq::{self, Xq};
use cgmath::*;
use num_traits::Float;

fn chk(ok: bool, what: String) -> Result<(), String> {
    if ok { Ok(()) } else { Err(what) }
}
fn zero() -> Xq { Xq::q(0, 1) }

/// rational (cos, sin) of the angle with tan(angle/2) = t
fn cs_of_t(t: &BigRat) -> (BigRat, BigRat) {
    let t2 = t.mul(t); let den = BigRat::one().add(&t2);
    (BigRat::one().sub(&t2).div(&den), t.add(t).div(&den))
}
/// (cos 2p, sin 2p) from (cos p, sin p)
fn double(c: &BigRat, s: &BigRat) -> (BigRat, BigRat) {
    (c.mul(c).sub(&s.mul(s)), BigRat::int(2).mul(&s.mul(c)))
}

/// a pair of unit vectors of dimension n (2 or 3) in a rational plane, separated by an angle 2p with rational cos p, sin p
/// (so that the normalisation of the half-way quaternion is exact); `t` = tan(p/2), sign of t = orientation
fn pair(ctx: &mut Ctx, n: usize, t: &BigRat) -> (Vec<BigRat>, Vec<BigRat>) {
    let (e1, e2) = frame(ctx, n);
    let (cp, sp) = cs_of_t(t);
    let (c2, s2) = double(&cp, &sp);
    // a at a generic rational direction of the plane, b = a turned by 2p
    let u = ctx.unit2();
    let a = addv(&scale(&e1, &u[0]), &scale(&e2, &u[1]));
    let (bc, bs) = (u[0].mul(&c2).sub(&u[1].mul(&s2)), u[0].mul(&s2).add(&u[1].mul(&c2)));
    let b = addv(&scale(&e1, &bc), &scale(&e2, &bs));
    (a, b)
}
/// a unit 3-vector a with rational |a x e_x| (and |a x e_y| when swapped)
fn unit_with_rational_cross(ctx: &mut Ctx) -> Vec<BigRat> {
    let (c, u) = (ctx.unit2(), ctx.unit2());
    vec![c[0].clone(), c[1].mul(&u[0]), c[1].mul(&u[1])]
}

fn ts(ctx: &mut Ctx) -> Vec<(BigRat, &'static str)> {
    let g = ctx.generic(2);
    // t = +-1 would be the exactly antiparallel pair, which has its own stream (it needs an axis of rational length)
    let fix = |t: BigRat| if t.abs() == BigRat::one() { t.add(&q(1, 7)) } else { t };
    vec![
        (fix(g[0].div(&BigRat::int(3))), "nt:generic"),
        (fix(g[1].div(&BigRat::int(5))), "nt:generic"),
        (q(1, 1i128 << 20), "nt:nearly-parallel-outside-tolerance"),
        (q(-1, 1i128 << 20), "nt:nearly-parallel-outside-tolerance"),
        (q(1, 1i128 << 30), "nt:nearly-parallel-inside-tolerance"),
        (BigRat::zero(), "nt:equal"),
        (q(1i128 << 20, 1), "nt:nearly-antiparallel-outside-tolerance"),      // p close to pi/2, so 2p close to pi
        (q(-(1i128 << 20), 1), "nt:nearly-antiparallel-outside-tolerance"),
        (BigRat::one(), "nt:antiparallel"),                                   // p = pi/2 exactly: b = -a
    ]
}

pub fn cases(ctx: &mut Ctx) {
    let none = || {};
    let hsetup = || {};
    for _ in 0..3 * ctx.scale {
        for (t, tag) in ts(ctx) {
            // 3-D
            let (a, b) = if tag == "nt:antiparallel" { let a = unit_with_rational_cross(ctx); let b = scale(&a, &BigRat::int(-1)); (a, b) } else { pair(ctx, 3, &t) };
            let ab = cat(&[&a, &b]);
            ctx.case("quat_between_vectors", tag, &ab, &none, &|x| { let r: Quaternion<Xq> = Rotation::between_vectors(v3(x), v3(&x[3..])); r });
            ctx.case("basis3_between_vectors", tag, &ab, &none, &|x| { let r: Basis3<Xq> = Rotation::between_vectors(v3(x), v3(&x[3..])); r });
            // from_arc with rational lengths
            let g = ctx.generic(2);
            let (sa, sb) = (scale(&a, &g[0].abs()), scale(&b, &g[1].abs()));
            let sab = cat(&[&sa, &sb]);
            ctx.case("quat_from_arc_none", tag, &sab, &hsetup, &|x| Quaternion::from_arc(v3(x), v3(&x[3..]), None));
            let fb = ctx.unit3();
            ctx.case("quat_from_arc_some", tag, &cat(&[&sab, &fb]), &hsetup, &|x| Quaternion::from_arc(v3(x), v3(&x[3..]), Some(v3(&x[6..]))));
            // 2-D
            if tag != "nt:antiparallel" {
                let (a2, b2) = pair(ctx, 2, &t);
                basis2_case(ctx, tag, &a2, &b2);
            }
        }
        // antiparallel along the coordinate axes (the first candidate axis vanishes)
        for ax in 0..3usize {
            for sgn in [1i128, -1] {
                let mut a = vec![BigRat::zero(), BigRat::zero(), BigRat::zero()]; a[ax] = BigRat::int(sgn);
                let b = scale(&a, &BigRat::int(-1));
                let ab = cat(&[&a, &b]);
                ctx.case("quat_between_vectors", "nt:antiparallel-axis", &ab, &none, &|x| { let r: Quaternion<Xq> = Rotation::between_vectors(v3(x), v3(&x[3..])); r });
                ctx.case("basis3_between_vectors", "nt:antiparallel-axis", &ab, &none, &|x| { let r: Basis3<Xq> = Rotation::between_vectors(v3(x), v3(&x[3..])); r });
                let g = ctx.generic(2);
                let sab = cat(&[&scale(&a, &g[0].abs()), &scale(&b, &g[1].abs())]);
                ctx.case("quat_from_arc_none", "nt:antiparallel-axis", &sab, &hsetup, &|x| Quaternion::from_arc(v3(x), v3(&x[3..]), None));
            }
        }
        // 2-D antiparallel and quarter turns of both orientations
        let u = ctx.unit2();
        basis2_case(ctx, "nt:antiparallel", &u, &scale(&u, &BigRat::int(-1)));
        basis2_case(ctx, "nt:quarter-ccw", &u, &vec![u[1].neg(), u[0].clone()]);
        basis2_case(ctx, "nt:quarter-cw", &u, &vec![u[1].clone(), u[0].neg()]);
    }
}

/// Basis2::between_vectors needs the angle between a and b on the oracle's lattice: take the base angle to be that angle
fn basis2_case(ctx: &mut Ctx, tag: &str, a: &[BigRat], b: &[BigRat]) {
    // the float fallback answers atan2 with the exact value of the libm result; sin/cos of that value are then not
    // on the lattice, so Basis2 is exercised on lattice pairs only: a at k*beta, b at j*beta
    let (tn, td) = ctx.base_t();
    xq::reset();
    let base = xq::set_base_t(tn, td);
    let kmax = ((std::f64::consts::PI / base.beta).floor() as i64 - 1).max(1).min(6);
    let (k, j) = match tag {
        "nt:antiparallel" | "nt:equal" => (ctx.rng.range(-kmax, kmax), 0),
        _ => (ctx.rng.range(-kmax, kmax), ctx.rng.range(-kmax, kmax)),
    };
    let dir = |m: i64| -> Vec<BigRat> { let (s, c) = Xq::new(base.v.mul(&BigRat::int(m as i128))).sin_cos(); vec![c.rat(), s.rat()] };
    let (la, lb) = match tag {
        "nt:antiparallel" => { let a = dir(k); let b = scale(&a, &BigRat::int(-1)); (a, b) }
        "nt:equal" => (dir(k), dir(k)),
        _ => (dir(k), dir(if j == k { k + 1 } else { j })),
    };
    let _ = (a, b);
    let g = ctx.generic(2);
    let setup = move || { xq::set_base_t(tn, td); };
    ctx.case("basis2_between_vectors", tag, &cat(&[&la, &lb]), &setup, &|x| { let r: Basis2<Xq> = Rotation::between_vectors(v2(x), v2(&x[2..])); r });
    // the same directions with other lengths: still the rotation between the directions
    let sab = cat(&[&scale(&la, &g[0].abs()), &scale(&lb, &g[1].abs())]);
    ctx.case("basis2_between_vectors", "nt:non-unit", &sab, &setup, &|x| { let r: Basis2<Xq> = Rotation::between_vectors(v2(x), v2(&x[2..])); r });
}

pub fn preds(ctx: &mut Ctx) {
    let none = || {};
    for _ in 0..6 * ctx.scale {
        for (t, tag) in ts(ctx) {
            if tag == "nt:antiparallel" || tag == "nt:nearly-parallel-inside-tolerance" { continue; }
            let (a, b) = pair(ctx, 3, &t);
            let ab = cat(&[&a, &b]);
            ctx.pred("Quaternion::between_vectors: r(a) = b, unit, shortest, axis along a x b", &ab, &none, &|x| {
                let (a, b) = (v3(x), v3(&x[3..]));
                let r: Quaternion<Xq> = Rotation::between_vectors(a, b);
                chk(r.rotate_vector(a) == b, format!("r(a) = {:?}, b = {:?}", r.rotate_vector(a), b))?;
                chk(r.magnitude2() == Xq::q(1, 1), "not a unit quaternion".into())?;
                if a != b {
                    chk(r.s > zero() && r.s * r.s * Xq::q(2, 1) - Xq::q(1, 1) == a.dot(b), format!("rotation angle is not the angle between a and b: s = {:?}", r.s))?;
                    let c = a.cross(b);
                    chk(r.v.cross(c) == Vector3::new(zero(), zero(), zero()) && r.v.dot(c) > zero(), "axis is not a positive multiple of a x b".into())?;
                }
                Ok(())
            });
            ctx.pred("Basis3::between_vectors: r(a) = b", &ab, &none, &|x| {
                let (a, b) = (v3(x), v3(&x[3..]));
                let r: Basis3<Xq> = Rotation::between_vectors(a, b);
                chk(r.rotate_vector(a) == b, format!("r(a) = {:?}, b = {:?}", r.rotate_vector(a), b))?;
                let m: Matrix3<Xq> = r.into();
                chk(m * m.transpose() == Matrix3::identity() && m.determinant() == Xq::q(1, 1), "not a proper rotation".into())
            });
            let g = ctx.generic(2);
            let sab = cat(&[&scale(&a, &g[0].abs()), &scale(&b, &g[1].abs())]);
            let fb = ctx.unit3();
            ctx.pred("Quaternion::from_arc: unit, rotates src/|src| onto dst/|dst| the short way", &cat(&[&sab, &fb]), &none, &|x| {
                let (s, d) = (v3(x), v3(&x[3..]));
                for fallback in [None, Some(v3(&x[6..]))] {
                    let r = Quaternion::from_arc(s, d, fallback);
                    chk(r.magnitude2() == Xq::q(1, 1), "not a unit quaternion".into())?;
                    chk(r.rotate_vector(s) * d.magnitude() == d * s.magnitude(), format!("r(src)|dst| = {:?}, dst|src| = {:?}", r.rotate_vector(s) * d.magnitude(), d * s.magnitude()))?;
                    chk(r.s > zero(), "not the smaller angle (scalar part not positive)".into())?;
                }
                Ok(())
            });
        }
        // antiparallel
        let a = unit_with_rational_cross(ctx);
        let b = scale(&a, &BigRat::int(-1));
        let fbv = { let (e1, e2) = frame(ctx, 3); let _ = e2; e1 };
        ctx.pred("between_vectors / from_arc, antiparallel: half turn about an axis perpendicular to a", &cat(&[&a, &b, &fbv]), &none, &|x| {
            let (a, b) = (v3(x), v3(&x[3..]));
            let r: Quaternion<Xq> = Rotation::between_vectors(a, b);
            chk(r.s == zero() && r.v.magnitude2() == Xq::q(1, 1) && r.v.dot(a) == zero(), format!("between_vectors(a, -a) = {:?}", r))?;
            chk(r.rotate_vector(a) == b, "r(a) != -a".into())?;
            let r3: Basis3<Xq> = Rotation::between_vectors(a, b);
            chk(r3.rotate_vector(a) == b, "Basis3: r(a) != -a".into())?;
            let f = Quaternion::from_arc(a * Xq::q(3, 2), b * Xq::q(5, 7), None);
            chk(f.magnitude2() == Xq::q(1, 1) && f.rotate_vector(a) == b && f.v.dot(a) == zero(), format!("from_arc(a, -a, None) = {:?}", f))?;
            // a fallback axis perpendicular to a: e = a x fb normalised is not rational in general, so use the axis r found above
            let f2 = Quaternion::from_arc(a, b, Some(r.v));
            chk(f2.rotate_vector(a) == b && f2.v == r.v, format!("from_arc(a, -a, Some(axis)) = {:?}", f2))
        });
    }
    // Basis2 on lattice pairs, both orientations
    for _ in 0..12 * ctx.scale {
        let (tn, td) = ctx.base_t();
        xq::reset();
        let base = xq::set_base_t(tn, td);
        let kmax = ((std::f64::consts::PI / base.beta).floor() as i64 - 1).max(1).min(6);
        let (k, j) = (ctx.rng.range(-kmax, kmax), ctx.rng.range(-kmax, kmax));
        let dir = |m: i64| -> Vec<BigRat> { let (s, c) = Xq::new(base.v.mul(&BigRat::int(m as i128))).sin_cos(); vec![c.rat(), s.rat()] };
        let (a, b) = (dir(k), dir(j));
        let setup = move || { xq::set_base_t(tn, td); };
        ctx.pred("Basis2::between_vectors: r(a) = b, proper rotation, turns the short way", &cat(&[&a, &b]), &setup, &|x| {
            let (a, b) = (v2(x), v2(&x[2..]));
            let r: Basis2<Xq> = Rotation::between_vectors(a, b);
            chk(r.rotate_vector(a) == b, format!("r(a) = {:?}, b = {:?}", r.rotate_vector(a), b))?;
            let m: Matrix2<Xq> = r.into();
            chk(m * m.transpose() == Matrix2::identity() && m.determinant() == Xq::q(1, 1), "not a proper rotation".into())?;
            // sin of the rotation has the sign of perp_dot(a, b): clockwise exactly when b is clockwise of a
            let s = m.x.y; let p = a.perp_dot(b);
            chk((s > zero()) == (p > zero()) && (s < zero()) == (p < zero()), format!("sin = {:?} but perp_dot = {:?}", s, p))
        });
    }
    // native f64: oblique pairs, tolerance 1e-9
    for _ in 0..40 * ctx.scale {
        let r: Vec<f64> = (0..6).map(|_| ctx.rng.range(-1000, 1000) as f64 / 64.0 + 0.013).collect();
        ctx.pred_evals += 1;
        let (a, b) = (Vector3::new(r[0], r[1], r[2]).normalize(), Vector3::new(r[3], r[4], r[5]).normalize());
        let q: Quaternion<f64> = Rotation::between_vectors(a, b);
        let b3: Basis3<f64> = Rotation::between_vectors(a, b);
        let (a2, b2) = (Vector2::new(r[0], r[1]).normalize(), Vector2::new(r[3], r[4]).normalize());
        let m2: Basis2<f64> = Rotation::between_vectors(a2, b2);
        let fa = Quaternion::from_arc(Vector3::new(r[0], r[1], r[2]), Vector3::new(r[3], r[4], r[5]), None);
        let ok = (q.rotate_vector(a) - b).magnitude() < 1e-9 && (b3.rotate_vector(a) - b).magnitude() < 1e-9 && (m2.rotate_vector(a2) - b2).magnitude() < 1e-9
            && (fa.rotate_vector(a) - b).magnitude() < 1e-9 && (fa.magnitude() - 1.0).abs() < 1e-12;
        if !ok {
            ctx.pred_fails.push(PredFail { pred: "native-f64:between_vectors/from_arc".into(), inp: r.iter().map(|x| BigRat::from_f64(*x)).collect(), detail: "r(a) differs from b by more than 1e-9".into() });
        }
    }
}
