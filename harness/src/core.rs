//! Case recording, flattening of cgmath values, PRNG and generators.

use crate::bigrat::BigRat;
use crate::sym::{self, Node};
use crate::xq::{self, OracleLog, Val, Xq};
use cgmath::*;
use std::collections::HashSet;
use std::io::Write;
use std::panic::{catch_unwind, AssertUnwindSafe};

// ---------- PRNG: splitmix64, every random choice derives from VERIF_SEED ----------
pub struct Rng(pub u64);
impl Rng {
    pub fn next(&mut self) -> u64 {
        self.0 = self.0.wrapping_add(0x9E3779B97F4A7C15);
        let mut z = self.0;
        z = (z ^ (z >> 30)).wrapping_mul(0xBF58476D1CE4E5B9);
        z = (z ^ (z >> 27)).wrapping_mul(0x94D049BB133111EB);
        z ^ (z >> 31)
    }
    pub fn below(&mut self, n: u64) -> u64 {
        self.next() % n
    }
    pub fn range(&mut self, lo: i64, hi: i64) -> i64 {
        lo + self.below((hi - lo + 1) as u64) as i64
    }
    pub fn pick<'a, T>(&mut self, xs: &'a [T]) -> &'a T {
        &xs[self.below(xs.len() as u64) as usize]
    }
    pub fn coin(&mut self) -> bool {
        self.next() & 1 == 1
    }
}

// ---------- outputs ----------
#[derive(Clone, Debug, PartialEq)]
pub enum Out {
    Q(Vec<BigRat>),
    Sym(Vec<u32>), // symbolic mode: node ids of the flattened result
    None,
    Panic(String),
    Bool(bool),
}

/// flatten a value into scalar components (memory / constructor order documented per type)
pub trait Flat {
    fn flat(&self, out: &mut Vec<Xq>);
}
impl Flat for Xq {
    fn flat(&self, out: &mut Vec<Xq>) {
        out.push(*self)
    }
}
impl Flat for Vector1<Xq> {
    fn flat(&self, o: &mut Vec<Xq>) {
        o.push(self.x)
    }
}
impl Flat for Vector2<Xq> {
    fn flat(&self, o: &mut Vec<Xq>) {
        o.extend_from_slice(&[self.x, self.y])
    }
}
impl Flat for Vector3<Xq> {
    fn flat(&self, o: &mut Vec<Xq>) {
        o.extend_from_slice(&[self.x, self.y, self.z])
    }
}
impl Flat for Vector4<Xq> {
    fn flat(&self, o: &mut Vec<Xq>) {
        o.extend_from_slice(&[self.x, self.y, self.z, self.w])
    }
}
impl Flat for Point1<Xq> {
    fn flat(&self, o: &mut Vec<Xq>) {
        o.push(self.x)
    }
}
impl Flat for Point2<Xq> {
    fn flat(&self, o: &mut Vec<Xq>) {
        o.extend_from_slice(&[self.x, self.y])
    }
}
impl Flat for Point3<Xq> {
    fn flat(&self, o: &mut Vec<Xq>) {
        o.extend_from_slice(&[self.x, self.y, self.z])
    }
}
// matrices: column by column
impl Flat for Matrix2<Xq> {
    fn flat(&self, o: &mut Vec<Xq>) {
        self.x.flat(o);
        self.y.flat(o)
    }
}
impl Flat for Matrix3<Xq> {
    fn flat(&self, o: &mut Vec<Xq>) {
        self.x.flat(o);
        self.y.flat(o);
        self.z.flat(o)
    }
}
impl Flat for Matrix4<Xq> {
    fn flat(&self, o: &mut Vec<Xq>) {
        self.x.flat(o);
        self.y.flat(o);
        self.z.flat(o);
        self.w.flat(o)
    }
}
// quaternion: scalar part first (the order of Quaternion::new), then x, y, z
impl Flat for Quaternion<Xq> {
    fn flat(&self, o: &mut Vec<Xq>) {
        o.extend_from_slice(&[self.s, self.v.x, self.v.y, self.v.z])
    }
}
impl Flat for Rad<Xq> {
    fn flat(&self, o: &mut Vec<Xq>) {
        o.push(self.0)
    }
}
impl Flat for Deg<Xq> {
    fn flat(&self, o: &mut Vec<Xq>) {
        o.push(self.0)
    }
}
impl<A: Flat> Flat for Euler<A> {
    fn flat(&self, o: &mut Vec<Xq>) {
        self.x.flat(o);
        self.y.flat(o);
        self.z.flat(o)
    }
}
impl Flat for Basis2<Xq> {
    fn flat(&self, o: &mut Vec<Xq>) {
        let m: &Matrix2<Xq> = self.as_ref();
        m.flat(o)
    }
}
impl Flat for Basis3<Xq> {
    fn flat(&self, o: &mut Vec<Xq>) {
        let m: &Matrix3<Xq> = self.as_ref();
        m.flat(o)
    }
}
// Decomposed: scale, rot, disp
impl<V: VectorSpace<Scalar = Xq> + Flat, R: Flat> Flat for Decomposed<V, R> {
    fn flat(&self, o: &mut Vec<Xq>) {
        o.push(self.scale);
        self.rot.flat(o);
        self.disp.flat(o)
    }
}
impl<A: Flat, B: Flat> Flat for (A, B) {
    fn flat(&self, o: &mut Vec<Xq>) {
        self.0.flat(o);
        self.1.flat(o)
    }
}
impl<A: Flat, B: Flat, C: Flat> Flat for (A, B, C) {
    fn flat(&self, o: &mut Vec<Xq>) {
        self.0.flat(o);
        self.1.flat(o);
        self.2.flat(o)
    }
}
impl<A: Flat> Flat for Vec<A> {
    fn flat(&self, o: &mut Vec<Xq>) {
        for a in self {
            a.flat(o)
        }
    }
}

pub trait ToOut {
    fn to_out(&self) -> Out;
}
fn flat_out<T: Flat>(t: &T) -> Out {
    let mut v = vec![];
    t.flat(&mut v);
    if sym::on() {
        return Out::Sym(v.iter().map(|x| x.node_id()).collect());
    }
    let mut r = vec![];
    for x in v {
        match x.val() {
            Val::Fin(q) => r.push(q),
            other => return Out::Panic(format!("non-finite output {:?}", other)),
        }
    }
    Out::Q(r)
}
macro_rules! to_out_flat { ($($t:ty),*) => { $( impl ToOut for $t { fn to_out(&self) -> Out { flat_out(self) } } )* } }
to_out_flat!(
    Xq, Vector1<Xq>, Vector2<Xq>, Vector3<Xq>, Vector4<Xq>, Point1<Xq>, Point2<Xq>, Point3<Xq>,
    Matrix2<Xq>, Matrix3<Xq>, Matrix4<Xq>, Quaternion<Xq>, Rad<Xq>, Deg<Xq>, Basis2<Xq>, Basis3<Xq>,
    Euler<Rad<Xq>>, Euler<Deg<Xq>>
);
impl<V: VectorSpace<Scalar = Xq> + Flat, R: Flat> ToOut for Decomposed<V, R> {
    fn to_out(&self) -> Out {
        flat_out(self)
    }
}
impl<A: Flat, B: Flat> ToOut for (A, B) {
    fn to_out(&self) -> Out {
        flat_out(self)
    }
}
impl<A: Flat, B: Flat, C: Flat> ToOut for (A, B, C) {
    fn to_out(&self) -> Out {
        flat_out(self)
    }
}
impl<A: Flat> ToOut for Vec<A> {
    fn to_out(&self) -> Out {
        flat_out(self)
    }
}
impl ToOut for bool {
    fn to_out(&self) -> Out {
        Out::Bool(*self)
    }
}
impl<T: ToOut> ToOut for Option<T> {
    fn to_out(&self) -> Out {
        match self {
            Some(t) => t.to_out(),
            None => Out::None,
        }
    }
}
impl ToOut for Out {
    fn to_out(&self) -> Out {
        self.clone()
    }
}

// ---------- cases ----------
pub struct Case {
    pub f: String,
    pub inp: Vec<BigRat>,
    pub orc: OracleLog,
    pub out: Out,
    pub tag: String, // generator stream / branch label (for the histograms)
}

pub struct PredFail {
    pub pred: String,
    pub inp: Vec<BigRat>,
    pub detail: String,
}

pub struct Ctx {
    pub rng: Rng,
    pub seed: u64,
    pub scale: usize, // multiplier on case counts (quick = 1)
    pub cases: Vec<Case>,
    pub pred_evals: usize,
    pub pred_fails: Vec<PredFail>,
    pub only: Option<String>,
    /// symbolic mode: instead of recording concrete cases, enumerate the paths of each function once
    pub sym: bool,
    /// (function, arity) -> (positions of the inputs the code needs concretely, signatures already explored)
    pub sym_seen: std::collections::HashMap<(String, usize), (Vec<u32>, HashSet<Vec<BigRat>>)>,
    pub sym_fns: Vec<SymFn>,
    /// symbolic mode, property clauses: (name, arity, paths, decisions over all paths, all paths Ok, first failure)
    pub sym_preds: Vec<(String, usize, usize, usize, bool, String)>,
    pub sym_pred_seen: std::collections::HashMap<(String, usize), usize>,
    pub sym_preds_on: bool,
    /// probe mode: run the named functions on the given inputs only (search for a failing input, symgen.py)
    pub probes: Option<std::collections::HashMap<String, Vec<Vec<BigRat>>>>,
    pub probe_done: HashSet<(String, usize)>,
}

/// one path of the symbolic execution of a function
pub struct SymPath {
    pub nodes: Vec<Node>,
    pub conds: Vec<sym::Cond>,
    pub out: Out,
}
pub struct SymFn {
    pub f: String,
    pub arity: usize,
    pub paths: Vec<SymPath>,
    /// inputs that the code needed as concrete numbers, with the values of the case that was explored
    pub concretized: Vec<(u32, BigRat)>,
    /// why the function could not be executed symbolically (None = all paths enumerated)
    pub unsupported: Option<String>,
}
pub const SYM_MAX_PATHS: usize = 600;
pub const SYM_MAX_SIGNATURES: usize = 160;

fn panic_msg(e: Box<dyn std::any::Any + Send>) -> String {
    if let Some(s) = e.downcast_ref::<&str>() {
        s.to_string()
    } else if let Some(s) = e.downcast_ref::<String>() {
        s.clone()
    } else {
        "panic".to_string()
    }
}

pub fn rats(xs: &[Xq]) -> Vec<BigRat> {
    xs.iter().map(|x| x.rat()).collect()
}

impl Ctx {
    pub fn new(seed: u64, scale: usize) -> Ctx {
        Ctx { rng: Rng(seed), seed, scale, cases: vec![], pred_evals: 0, pred_fails: vec![], only: None, sym: false, sym_seen: Default::default(), sym_fns: vec![], sym_preds: vec![], sym_pred_seen: Default::default(), sym_preds_on: false, probes: None, probe_done: HashSet::new() }
    }

    /// Run `body` on freshly allocated inputs and record the case.
    /// `setup` runs after the arena reset (install base angle) and returns the inputs as rationals.
    pub fn case<R: ToOut>(&mut self, f: &str, tag: &str, inp: &[BigRat], setup: &dyn Fn(), body: &dyn Fn(&[Xq]) -> R) {
        if let Some(o) = &self.only {
            if o != f {
                return;
            }
        }
        if self.sym && self.sym_preds_on {
            return; // C17: only the operator-spelling clauses are evaluated symbolically
        }
        if self.sym {
            let key = (f.to_string(), inp.len());
            let explore = match self.sym_seen.get(&key) {
                None => true,
                Some((pos, seen)) => {
                    let sig: Vec<BigRat> = pos.iter().map(|&i| inp[i as usize].clone()).collect();
                    !pos.is_empty() && !seen.contains(&sig) && seen.len() < SYM_MAX_SIGNATURES
                }
            };
            if explore {
                let sf = sym_explore(f, inp, setup, body);
                let e = self.sym_seen.entry(key).or_insert_with(|| (vec![], HashSet::new()));
                for (i, _) in &sf.concretized {
                    if !e.0.contains(i) {
                        e.0.push(*i);
                        e.0.sort();
                    }
                }
                let sig: Vec<BigRat> = e.0.iter().map(|&i| inp[i as usize].clone()).collect();
                e.1.insert(sig);
                self.sym_fns.push(sf);
            }
            return;
        }
        if self.probes.is_some() {
            if !self.probe_done.insert((f.to_string(), inp.len())) {
                return;
            }
            let list: Vec<Vec<BigRat>> = self.probes.as_ref().unwrap().get(f).cloned().unwrap_or_default();
            xq::set_probe_float(true);
            for pin in list.iter().filter(|p| p.len() == inp.len()) {
                xq::reset();
                setup();
                xq::set_float_fallback(true);
                let xs: Vec<Xq> = pin.iter().map(|r| Xq::new(r.clone())).collect();
                let res = catch_unwind(AssertUnwindSafe(|| body(&xs).to_out()));
                let out = match res {
                    Ok(o) => o,
                    Err(e) => {
                        let m = panic_msg(e);
                        if ["division by zero", "inexact sqrt", "unmodelled", "non-finite"].iter().any(|k| m.contains(k)) {
                            continue; // the exact scalar cannot evaluate this input: not a usable probe
                        }
                        Out::Panic(m)
                    }
                };
                let orc = xq::take_log();
                self.cases.push(Case { f: f.to_string(), inp: pin.clone(), orc, out, tag: "probe".to_string() });
            }
            xq::set_probe_float(false);
            return;
        }
        xq::reset();
        setup();
        let xs: Vec<Xq> = inp.iter().map(|r| Xq::new(r.clone())).collect();
        let res = catch_unwind(AssertUnwindSafe(|| body(&xs).to_out()));
        let out = match res {
            Ok(o) => o,
            Err(e) => {
                // a panic raised by the exact scalar itself (division by zero, inexact root, question outside the oracle)
                // is not a rejection by the code under test: it is recorded as such and never equals a model output
                let m = panic_msg(e);
                if ["division by zero", "inexact sqrt", "unmodelled", "non-finite"].iter().any(|k| m.contains(k)) {
                    Out::Panic(format!("xq-arith: {}", m))
                } else {
                    Out::Panic(m)
                }
            }
        };
        let orc = xq::take_log();
        self.cases.push(Case { f: f.to_string(), inp: inp.to_vec(), orc, out, tag: tag.to_string() });
    }

    /// Evaluate an executable statement of the property on the implementation.
    /// `body` returns Ok(()) when the clause holds, Err(detail) when it is violated;
    /// a panic inside counts as a violation unless `expect_panic`.
    pub fn pred(&mut self, name: &str, inp: &[BigRat], setup: &dyn Fn(), body: &dyn Fn(&[Xq]) -> Result<(), String>) {
        if self.sym && self.sym_preds_on && !inp.is_empty() && {
            // every instance of a clause is evaluated symbolically (the straight-line programs differ from instance to instance)
            let n = self.sym_pred_seen.entry((name.to_string(), inp.len())).or_insert(0);
            *n += 1;
            *n <= 256
        } {
            // the clause evaluated on symbolic inputs: when every comparison in it is between literally identical
            // expressions there is no decision at all and the clause holds for every input
            let mut script: Vec<bool> = vec![];
            let (mut paths, mut decisions, mut all_ok, mut first) = (0usize, 0usize, true, String::new());
            let mut symbolic_work = false; // did the clause compute anything on the symbolic inputs?
            loop {
                xq::reset();
                setup();
                sym::begin(&script, inp);
                let xs: Vec<Xq> = (0..inp.len()).map(|i| Xq::input(i as u32)).collect();
                let res = catch_unwind(AssertUnwindSafe(|| body(&xs)));
                let st = sym::end();
                paths += 1;
                decisions += st.trace.len();
                symbolic_work |= st.nodes.len() > inp.len();
                match res {
                    Ok(Ok(())) => {}
                    Ok(Err(d)) => { all_ok = false; if first.is_empty() { first = d; } }
                    Err(e) => { all_ok = false; if first.is_empty() { first = format!("panic: {}", panic_msg(e)); } }
                }
                let mut trace = st.trace.clone();
                while let Some(true) = trace.last() { trace.pop(); }
                if trace.is_empty() || paths >= 64 { break; }
                let n = trace.len();
                trace[n - 1] = true;
                script = trace;
            }
            if symbolic_work {
                self.sym_preds.push((name.to_string(), inp.len(), paths, decisions, all_ok, first));
            }
            return;
        }
        if self.sym || self.probes.is_some() {
            return;
        }
        xq::reset();
        setup();
        let xs: Vec<Xq> = inp.iter().map(|r| Xq::new(r.clone())).collect();
        self.pred_evals += 1;
        let res = catch_unwind(AssertUnwindSafe(|| body(&xs)));
        let fail = match res {
            Ok(Ok(())) => None,
            Ok(Err(d)) => Some(d),
            Err(e) => Some(format!("panic: {}", panic_msg(e))),
        };
        if let Some(d) = fail {
            self.pred_fails.push(PredFail { pred: name.to_string(), inp: inp.to_vec(), detail: d });
        }
    }

    // ---------- generators ----------
    /// generic stream: n pairwise distinct non-zero rationals, numerators in +-[1,12], denominators in {1,2,3,4,5,7,8}
    pub fn generic(&mut self, n: usize) -> Vec<BigRat> {
        let dens = [1i128, 2, 3, 4, 5, 7, 8];
        let mut seen = HashSet::new();
        let mut r = vec![];
        while r.len() < n {
            let num = self.rng.range(1, 12) as i128 * if self.rng.coin() { 1 } else { -1 };
            let den = *self.rng.pick(&dens);
            let q = BigRat::from_i(num, den);
            if seen.insert(q.clone()) {
                r.push(q);
            }
        }
        r
    }
    /// pairwise distinct non-zero small integers in +-[1, bound]
    pub fn small_ints(&mut self, n: usize, bound: i64) -> Vec<i64> {
        let mut seen = HashSet::new();
        let mut r = vec![];
        while r.len() < n {
            let v = self.rng.range(1, bound) * if self.rng.coin() { 1 } else { -1 };
            if seen.insert(v) {
                r.push(v);
            }
        }
        r
    }
    /// rational point on the unit 3-sphere (w, x, y, z) by inverse stereographic projection
    pub fn unit4(&mut self) -> Vec<BigRat> {
        loop {
            let p = self.generic(3);
            let n2 = p.iter().fold(BigRat::zero(), |a, x| a.add(&x.mul(x)));
            let den = n2.add(&BigRat::one());
            let two = BigRat::int(2);
            let w = n2.sub(&BigRat::one()).div(&den);
            if w.is_zero() {
                continue;
            }
            let mut r = vec![w];
            for x in &p {
                r.push(two.mul(x).div(&den));
            }
            // random sign flip / component permutation so that every component can dominate
            let k = self.rng.below(4) as usize;
            r.swap(0, k);
            if self.rng.coin() {
                for x in r.iter_mut() {
                    *x = x.neg();
                }
            }
            return r;
        }
    }
    /// rational unit 3-vector
    pub fn unit3(&mut self) -> Vec<BigRat> {
        let p = self.generic(2);
        let n2 = p.iter().fold(BigRat::zero(), |a, x| a.add(&x.mul(x)));
        let den = n2.add(&BigRat::one());
        let two = BigRat::int(2);
        let mut r = vec![n2.sub(&BigRat::one()).div(&den), two.mul(&p[0]).div(&den), two.mul(&p[1]).div(&den)];
        let k = self.rng.below(3) as usize;
        r.swap(0, k);
        r
    }
    /// rational unit 2-vector
    pub fn unit2(&mut self) -> Vec<BigRat> {
        let t = self.generic(1).pop().unwrap();
        let t2 = t.mul(&t);
        let den = t2.add(&BigRat::one());
        let mut r = vec![BigRat::one().sub(&t2).div(&den), t.add(&t).div(&den)];
        if self.rng.coin() {
            r.swap(0, 1);
        }
        r
    }
    /// parameters (tn, td) of a base angle: tan(beta/2) = tn/td, beta between ~0.1 and ~0.45 rad
    pub fn base_t(&mut self) -> (i128, i128) {
        let td = self.rng.range(5, 20) as i128;
        (1, td)
    }
}

/// depth-first enumeration of the paths of `body` run on symbolic inputs (see sym.rs)
fn sym_explore<R: ToOut>(f: &str, inp: &[BigRat], setup: &dyn Fn(), body: &dyn Fn(&[Xq]) -> R) -> SymFn {
    let arity = inp.len();
    let mut concretized: std::collections::BTreeMap<u32, BigRat> = Default::default();
    let mut paths = vec![];
    let mut script: Vec<bool> = vec![];
    let mut unsupported = None;
    loop {
        xq::reset();
        setup();
        sym::begin(&script, inp);
        let xs: Vec<Xq> = (0..arity).map(|i| Xq::input(i as u32)).collect();
        let res = catch_unwind(AssertUnwindSafe(|| body(&xs).to_out()));
        let st = sym::end();
        let out = match res {
            Ok(o) => o,
            Err(e) => {
                let m = panic_msg(e);
                if m.starts_with(sym::UNSUPPORTED) || m.contains("unmodelled") {
                    unsupported = Some(m);
                    break;
                }
                Out::Panic(m)
            }
        };
        let mut trace = st.trace.clone();
        for (i, v) in &st.concretized {
            concretized.insert(*i, v.clone());
        }
        paths.push(SymPath { nodes: st.nodes, conds: st.conds, out });
        if paths.len() > SYM_MAX_PATHS {
            unsupported = Some(format!("more than {} paths", SYM_MAX_PATHS));
            break;
        }
        // next script: drop trailing `true`s (both outcomes explored), flip the last `false`
        while let Some(true) = trace.last() {
            trace.pop();
        }
        if trace.is_empty() {
            break;
        }
        let n = trace.len();
        trace[n - 1] = true;
        script = trace;
    }
    SymFn { f: f.to_string(), arity, paths, concretized: concretized.into_iter().collect(), unsupported }
}

// ---------- building cgmath values from flattened inputs ----------
pub fn v1(x: &[Xq]) -> Vector1<Xq> {
    Vector1::new(x[0])
}
pub fn v2(x: &[Xq]) -> Vector2<Xq> {
    Vector2::new(x[0], x[1])
}
pub fn v3(x: &[Xq]) -> Vector3<Xq> {
    Vector3::new(x[0], x[1], x[2])
}
pub fn v4(x: &[Xq]) -> Vector4<Xq> {
    Vector4::new(x[0], x[1], x[2], x[3])
}
pub fn p1(x: &[Xq]) -> Point1<Xq> {
    Point1::new(x[0])
}
pub fn p2(x: &[Xq]) -> Point2<Xq> {
    Point2::new(x[0], x[1])
}
pub fn p3(x: &[Xq]) -> Point3<Xq> {
    Point3::new(x[0], x[1], x[2])
}
pub fn m2(x: &[Xq]) -> Matrix2<Xq> {
    Matrix2::new(x[0], x[1], x[2], x[3])
}
pub fn m3(x: &[Xq]) -> Matrix3<Xq> {
    Matrix3::new(x[0], x[1], x[2], x[3], x[4], x[5], x[6], x[7], x[8])
}
pub fn m4(x: &[Xq]) -> Matrix4<Xq> {
    Matrix4::new(
        x[0], x[1], x[2], x[3], x[4], x[5], x[6], x[7], x[8], x[9], x[10], x[11], x[12], x[13], x[14], x[15],
    )
}
/// Basis2 / Basis3 from the flattened matrix: their field is private and there is no public constructor from a
/// matrix, but they are single-field wrappers of Matrix2 / Matrix3 (same size, checked by transmute)
pub fn b2(x: &[Xq]) -> Basis2<Xq> {
    unsafe { std::mem::transmute::<Matrix2<Xq>, Basis2<Xq>>(m2(x)) }
}
pub fn b3(x: &[Xq]) -> Basis3<Xq> {
    unsafe { std::mem::transmute::<Matrix3<Xq>, Basis3<Xq>>(m3(x)) }
}
/// quaternion from [s, x, y, z]
pub fn qn(x: &[Xq]) -> Quaternion<Xq> {
    Quaternion::new(x[0], x[1], x[2], x[3])
}

// ---------- JSON output ----------
fn js(s: &str) -> String {
    let mut r = String::from("\"");
    for c in s.chars() {
        match c {
            '"' => r.push_str("\\\""),
            '\\' => r.push_str("\\\\"),
            '\n' => r.push_str("\\n"),
            c if (c as u32) < 0x20 => r.push(' '),
            c => r.push(c),
        }
    }
    r.push('"');
    r
}
fn jq(q: &BigRat) -> String {
    format!("\"{}\"", q)
}
fn jql(l: &[BigRat]) -> String {
    format!("[{}]", l.iter().map(jq).collect::<Vec<_>>().join(","))
}
fn jorc(o: &OracleLog) -> String {
    let p1 = |v: &Vec<(BigRat, BigRat)>| format!("[{}]", v.iter().map(|(a, b)| format!("[{},{}]", jq(a), jq(b))).collect::<Vec<_>>().join(","));
    format!(
        "{{\"sqrt\":{},\"sincos\":[{}],\"asin\":{},\"acos\":{},\"atan\":{},\"atan2\":[{}]}}",
        p1(&o.sqrt),
        o.sincos.iter().map(|(a, (s, c))| format!("[{},{},{}]", jq(a), jq(s), jq(c))).collect::<Vec<_>>().join(","),
        p1(&o.asin),
        p1(&o.acos),
        p1(&o.atan),
        o.atan2.iter().map(|((y, x), r)| format!("[{},{},{}]", jq(y), jq(x), jq(r))).collect::<Vec<_>>().join(",")
    )
}
fn jout(o: &Out) -> String {
    match o {
        Out::Q(l) => format!("{{\"t\":\"Q\",\"v\":{}}}", jql(l)),
        Out::None => "{\"t\":\"None\"}".to_string(),
        Out::Panic(m) => format!("{{\"t\":\"Panic\",\"msg\":{}}}", js(m)),
        Out::Bool(b) => format!("{{\"t\":\"Bool\",\"v\":{}}}", b),
        Out::Sym(l) => format!("{{\"t\":\"Q\",\"v\":[{}]}}", l.iter().map(|i| i.to_string()).collect::<Vec<_>>().join(",")),
    }
}

fn jnode(n: &Node) -> String {
    match n {
        Node::In(i) => format!("[\"in\",{}]", i),
        Node::Const(r) => format!("[\"const\",{}]", jq(r)),
        Node::Cast(r) => format!("[\"cast\",{}]", jq(r)),
        Node::Eps => "[\"eps\"]".to_string(),
        Node::MaxRel => "[\"maxrel\"]".to_string(),
        Node::Un(op, a) => format!("[\"{}\",{}]", op, a),
        Node::Bin(op, a, b) => format!("[\"{}\",{},{}]", op, a, b),
    }
}

/// probes file: one probe per line, `function<TAB>q1 q2 ... qn` (rationals as n/d)
pub fn read_probes(path: &str) -> std::collections::HashMap<String, Vec<Vec<BigRat>>> {
    let mut m: std::collections::HashMap<String, Vec<Vec<BigRat>>> = Default::default();
    for line in std::fs::read_to_string(path).expect("probes file").lines() {
        let mut it = line.splitn(2, '\t');
        let f = it.next().unwrap_or("").to_string();
        let qs: Vec<BigRat> = it.next().unwrap_or("").split_whitespace().map(BigRat::parse).collect();
        if !f.is_empty() {
            m.entry(f).or_default().push(qs);
        }
    }
    m
}

pub fn write_sym_preds(path: &str, ps: &[(String, usize, usize, usize, bool, String)]) {
    let mut f = std::io::BufWriter::new(std::fs::File::create(path).expect("create sym preds file"));
    for (n, a, p, d, ok, e) in ps {
        writeln!(f, "{{\"pred\":{},\"arity\":{},\"paths\":{},\"decisions\":{},\"ok\":{},\"err\":{}}}", js(n), a, p, d, ok, js(e)).unwrap();
    }
}

pub fn write_sym(path: &str, fns: &[SymFn]) {
    let mut f = std::io::BufWriter::new(std::fs::File::create(path).expect("create sym file"));
    for sf in fns {
        let paths: Vec<String> = sf.paths.iter().map(|p| {
            let nodes = p.nodes.iter().map(jnode).collect::<Vec<_>>().join(",");
            let conds = p.conds.iter().map(|c| format!("{{\"op\":\"{}\",\"args\":[{}],\"ulps\":{},\"v\":{}}}", c.op,
                c.args.iter().map(|i| i.to_string()).collect::<Vec<_>>().join(","), c.ulps, c.outcome)).collect::<Vec<_>>().join(",");
            format!("{{\"nodes\":[{}],\"conds\":[{}],\"out\":{}}}", nodes, conds, jout(&p.out))
        }).collect();
        let uns = match &sf.unsupported { Some(m) => js(m), None => "null".to_string() };
        let conc = sf.concretized.iter().map(|(i, v)| format!("\"{}\":{}", i, jq(v))).collect::<Vec<_>>().join(",");
        writeln!(f, "{{\"f\":{},\"arity\":{},\"unsupported\":{},\"conc\":{{{}}},\"paths\":[{}]}}", js(&sf.f), sf.arity, uns, conc, paths.join(",")).unwrap();
    }
}

pub fn write_cases(path: &str, cases: &[Case]) {
    let mut f = std::io::BufWriter::new(std::fs::File::create(path).expect("create cases file"));
    for c in cases {
        writeln!(f, "{{\"f\":{},\"tag\":{},\"in\":{},\"orc\":{},\"out\":{}}}", js(&c.f), js(&c.tag), jql(&c.inp), jorc(&c.orc), jout(&c.out)).unwrap();
    }
}
pub fn write_preds(path: &str, evals: usize, fails: &[PredFail]) {
    let mut f = std::io::BufWriter::new(std::fs::File::create(path).expect("create preds file"));
    writeln!(f, "{{\"evals\":{}}}", evals).unwrap();
    for p in fails {
        writeln!(f, "{{\"pred\":{},\"in\":{},\"detail\":{}}}", js(&p.pred), jql(&p.inp), js(&p.detail)).unwrap();
    }
}
