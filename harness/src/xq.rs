//! `Xq`: an exact rational scalar type at which the *real generic cgmath code* is
//! instantiated.  A `Copy` handle into a thread-local arena of big rationals.
//! Arithmetic, `%` and comparisons are exact.  `sqrt` is exact on squares of
//! rationals (otherwise panics `inexact sqrt`).  Trigonometry is answered by a
//! semantic oracle: angles of the form k*v + j*h (v the scalar value carried by a
//! base angle beta with rational (cos, sin), h the f64 value of pi/2, k and j
//! integers) have exact rational sines and cosines; the inverse functions answer
//! from the same lattice, in their principal ranges.  Every question answered is
//! logged so that the Coq model can be given the same answers.

use crate::bigrat::{BigInt, BigRat};
use crate::sym::{self, Node};
use num_traits::{Float, Num, NumCast, One, ToPrimitive, Zero};
use std::cell::RefCell;
use std::cmp::Ordering;
use std::fmt;
use std::ops::*;

#[derive(Clone, Debug, PartialEq)]
pub enum Val {
    Fin(BigRat),
    Nan,
    PosInf,
    NegInf,
}

#[derive(Copy, Clone)]
pub struct Xq(u32);

#[derive(Clone, Default, Debug)]
pub struct OracleLog {
    pub sqrt: Vec<(BigRat, BigRat)>,
    pub sincos: Vec<(BigRat, (BigRat, BigRat))>,
    pub asin: Vec<(BigRat, BigRat)>,
    pub acos: Vec<(BigRat, BigRat)>,
    pub atan: Vec<(BigRat, BigRat)>,
    pub atan2: Vec<((BigRat, BigRat), BigRat)>,
}

/// base angle: scalar value v, (cos, sin) exact, true angle (f64, for range decisions only)
#[derive(Clone, Debug)]
pub struct Base {
    pub v: BigRat,
    pub c: BigRat,
    pub s: BigRat,
    pub beta: f64,
}

#[derive(Default)]
struct State {
    arena: Vec<Val>,
    base: Option<Base>,
    log: OracleLog,
    /// permit inexact sqrt by logging a caller-supplied answer? (never on the valid stream)
    table: Vec<(i32, i32, BigRat, BigRat, f64)>, // (k, j, cos, sin, true angle)
    /// when set, an inverse-trig question outside the lattice is answered with the exact rational value of the
    /// f64 libm result (used only where the answer is an output that is not fed back into trigonometry)
    float_fallback: bool,
}

thread_local! {
    static ST: RefCell<State> = RefCell::new(State::default());
    /// probe mode (search for a failing input after a broken tie lemma): questions outside the exact oracle are answered
    /// with the exact rational value of the f64 libm result and logged, so that the Coq model is given the same answers
    static PROBE_FLOAT: std::cell::Cell<bool> = std::cell::Cell::new(false);
}
pub fn set_probe_float(on: bool) {
    PROBE_FLOAT.with(|c| c.set(on))
}
fn probe_float() -> bool {
    PROBE_FLOAT.with(|c| c.get())
}

pub fn half_pi() -> BigRat {
    BigRat::from_f64(std::f64::consts::FRAC_PI_2)
}

/// start a new case: forget all handles, oracle log and base angle
pub fn reset() {
    ST.with(|s| {
        let mut s = s.borrow_mut();
        s.arena.clear();
        s.base = None;
        s.log = OracleLog::default();
        s.table.clear();
        s.float_fallback = false;
    })
}

pub fn set_float_fallback(on: bool) {
    ST.with(|s| s.borrow_mut().float_fallback = on)
}

pub fn take_log() -> OracleLog {
    ST.with(|s| std::mem::take(&mut s.borrow_mut().log))
}

fn cpow(c: &BigRat, s: &BigRat, k: i32) -> (BigRat, BigRat) {
    // (c + i s)^k
    let (mut bc, mut bs) = if k >= 0 { (c.clone(), s.clone()) } else { (c.clone(), s.neg()) };
    let mut e = k.unsigned_abs();
    let (mut rc, mut rs) = (BigRat::one(), BigRat::zero());
    while e > 0 {
        if e & 1 == 1 {
            let nc = rc.mul(&bc).sub(&rs.mul(&bs));
            let ns = rc.mul(&bs).add(&rs.mul(&bc));
            rc = nc;
            rs = ns;
        }
        let nc = bc.mul(&bc).sub(&bs.mul(&bs));
        let ns = bc.mul(&bs).add(&bs.mul(&bc));
        bc = nc;
        bs = ns;
        e >>= 1;
    }
    (rc, rs)
}

fn rot_quarter(c: BigRat, s: BigRat, j: i32) -> (BigRat, BigRat) {
    match j.rem_euclid(4) {
        0 => (c, s),
        1 => (s.neg(), c),
        2 => (c.neg(), s.neg()),
        _ => (s, c.neg()),
    }
}

/// install the base angle for this case (tan(beta/2) = t) and build the inverse table
pub fn set_base_t(tn: i128, td: i128) -> Base {
    let t = BigRat::from_i(tn, td);
    let t2 = t.mul(&t);
    let one = BigRat::one();
    let den = one.add(&t2);
    let c = one.sub(&t2).div(&den);
    let s = t.add(&t).div(&den);
    let beta = 2.0 * (tn as f64 / td as f64).atan();
    // scalar value of beta: beta rounded to a multiple of 2^-20
    let v = BigRat::from_i((beta * 1048576.0).round() as i128, 1048576);
    let b = Base { v, c, s, beta };
    set_base(b.clone());
    b
}

pub fn set_base(b: Base) {
    ST.with(|st| {
        let mut st = st.borrow_mut();
        let kmax = ((2.0 * std::f64::consts::PI) / b.beta.abs()).floor() as i32 + 1;
        let mut table = vec![];
        for k in -kmax..=kmax {
            let (c, s) = cpow(&b.c, &b.s, k);
            for j in -4..=4 {
                let (cc, ss) = rot_quarter(c.clone(), s.clone(), j);
                let ang = k as f64 * b.beta + j as f64 * std::f64::consts::FRAC_PI_2;
                if ang.abs() <= 2.0 * std::f64::consts::PI + 1e-9 {
                    table.push((k, j, cc, ss, ang));
                }
            }
        }
        st.table = table;
        st.base = Some(b);
    })
}

fn angle_value(base: &Option<Base>, k: i32, j: i32) -> BigRat {
    let mut r = half_pi().mul(&BigRat::int(j as i128));
    if let Some(b) = base {
        r = r.add(&b.v.mul(&BigRat::int(k as i128)));
    } else {
        assert!(k == 0);
    }
    r
}

fn decompose(base: &Option<Base>, x: &BigRat) -> Option<(i32, i32)> {
    let h = half_pi();
    for jj in 0..=16 {
        // try j = 0, 1, -1, 2, -2, ...
        let j = if jj % 2 == 0 { -(jj / 2) } else { (jj + 1) / 2 };
        let rest = x.sub(&h.mul(&BigRat::int(j as i128)));
        if rest.is_zero() {
            return Some((0, j));
        }
        if let Some(b) = base {
            let k = rest.div(&b.v);
            if k.is_int() {
                if let Some(ki) = k.n.to_i128() {
                    if ki.abs() <= 100000 {
                        return Some((ki as i32, j));
                    }
                }
            }
        }
    }
    None
}

fn oracle_sincos(x: &BigRat) -> (BigRat, BigRat) {
    ST.with(|st| {
        let mut st = st.borrow_mut();
        if let Some((_, r)) = st.log.sincos.iter().find(|(k, _)| k == x) {
            return r.clone();
        }
        let (k, j) = match decompose(&st.base, x) {
            Some(kj) => kj,
            None if probe_float() => {
                let (sf, cf) = x.to_f64().sin_cos();
                let r = (BigRat::from_f64(sf), BigRat::from_f64(cf));
                st.log.sincos.push((x.clone(), r.clone()));
                return r;
            }
            None => panic!("unmodelled trig argument {}", x),
        };
        let (c, s) = match &st.base {
            Some(b) => cpow(&b.c, &b.s, k),
            None => (BigRat::one(), BigRat::zero()),
        };
        let (c, s) = rot_quarter(c, s, j);
        st.log.sincos.push((x.clone(), (s.clone(), c.clone())));
        (s, c)
    })
}

/// find the lattice angle whose true value lies in [lo, hi] (with closedness flags) and satisfies pred
fn oracle_inverse(
    what: &str,
    lo: f64,
    hi: f64,
    lo_closed: bool,
    hi_closed: bool,
    pred: &dyn Fn(&BigRat, &BigRat) -> bool,
    fallback: &dyn Fn() -> f64,
) -> BigRat {
    ST.with(|st| {
        let st = st.borrow();
        let eps = 1e-9;
        // j-only entries are exact multiples of pi/2: decide closedness exactly; others are never on a boundary
        let mut found: Option<(i32, i32)> = None;
        let mut consider = |k: i32, j: i32, c: &BigRat, s: &BigRat, ang: f64| {
            let inside = if k == 0 {
                let a = j as f64 * std::f64::consts::FRAC_PI_2;
                let lo_ok = if (a - lo).abs() < eps { lo_closed } else { a > lo };
                let hi_ok = if (a - hi).abs() < eps { hi_closed } else { a < hi };
                lo_ok && hi_ok
            } else {
                ang > lo + eps && ang < hi - eps
            };
            if inside && pred(c, s) && found.is_none() {
                found = Some((k, j));
            }
        };
        if st.base.is_none() {
            for j in -4..=4 {
                let (c, s) = rot_quarter(BigRat::one(), BigRat::zero(), j);
                consider(0, j, &c, &s, j as f64 * std::f64::consts::FRAC_PI_2);
            }
        } else {
            // prefer representations with small |j| (canonical value for angles that coincide)
            let mut idx: Vec<usize> = (0..st.table.len()).collect();
            idx.sort_by_key(|&i| (st.table[i].1.abs(), st.table[i].0.abs()));
            for i in idx {
                let (k, j, c, s, ang) = &st.table[i];
                consider(*k, *j, c, s, *ang);
            }
        }
        match found {
            Some((k, j)) => angle_value(&st.base, k, j),
            None if st.float_fallback => BigRat::from_f64(fallback()),
            None => panic!("unmodelled inverse trig argument ({})", what),
        }
    })
}

// ---------- arena ----------

fn alloc(v: Val) -> Xq {
    ST.with(|s| {
        let mut s = s.borrow_mut();
        s.arena.push(v);
        Xq((s.arena.len() - 1) as u32)
    })
}

impl Xq {
    pub fn new(r: BigRat) -> Xq {
        if sym::on() {
            return Xq(sym::mk(Node::Const(r)));
        }
        alloc(Val::Fin(r))
    }
    /// symbolic mode: the i-th input of the function under symbolic execution
    pub fn input(i: u32) -> Xq {
        Xq(sym::mk(Node::In(i)))
    }
    /// symbolic mode: the node this scalar denotes
    pub fn node_id(self) -> u32 {
        self.0
    }
    pub fn q(n: i128, d: i128) -> Xq {
        Xq::new(BigRat::from_i(n, d))
    }
    pub fn val(self) -> Val {
        if sym::on() {
            return match sym::node(self.0) {
                Node::Const(r) | Node::Cast(r) => Val::Fin(r),
                Node::In(i) => Val::Fin(sym::concretize(i)),
                _ => sym::unsupported("concrete value of a symbolic scalar"),
            };
        }
        ST.with(|s| s.borrow().arena[self.0 as usize].clone())
    }
    pub fn rat(self) -> BigRat {
        match self.val() {
            Val::Fin(r) => r,
            v => panic!("non-finite scalar {:?} in arithmetic", v),
        }
    }
    pub fn nan_value() -> Xq {
        if sym::on() {
            sym::unsupported("NaN");
        }
        alloc(Val::Nan)
    }
    pub fn inf_value(neg: bool) -> Xq {
        if sym::on() {
            sym::unsupported("infinity");
        }
        alloc(if neg { Val::NegInf } else { Val::PosInf })
    }
}

impl fmt::Debug for Xq {
    fn fmt(&self, f: &mut fmt::Formatter) -> fmt::Result {
        if sym::on() {
            return write!(f, "<sym {}>", self.0);
        }
        match self.val() {
            Val::Fin(r) => write!(f, "{}", r),
            v => write!(f, "{:?}", v),
        }
    }
}

impl PartialEq for Xq {
    fn eq(&self, o: &Xq) -> bool {
        if sym::on() {
            return sym::cmp("eqb", self.0, o.0);
        }
        match (self.val(), o.val()) {
            (Val::Nan, _) | (_, Val::Nan) => false,
            (a, b) => a == b,
        }
    }
}
impl PartialOrd for Xq {
    fn lt(&self, o: &Xq) -> bool {
        if sym::on() {
            return sym::cmp("ltb", self.0, o.0);
        }
        self.partial_cmp(o) == Some(Ordering::Less)
    }
    fn le(&self, o: &Xq) -> bool {
        if sym::on() {
            return sym::cmp("leb", self.0, o.0);
        }
        matches!(self.partial_cmp(o), Some(Ordering::Less) | Some(Ordering::Equal))
    }
    fn gt(&self, o: &Xq) -> bool {
        if sym::on() {
            return sym::cmp("ltb", o.0, self.0);
        }
        self.partial_cmp(o) == Some(Ordering::Greater)
    }
    fn ge(&self, o: &Xq) -> bool {
        if sym::on() {
            return sym::cmp("leb", o.0, self.0);
        }
        matches!(self.partial_cmp(o), Some(Ordering::Greater) | Some(Ordering::Equal))
    }
    fn partial_cmp(&self, o: &Xq) -> Option<Ordering> {
        if sym::on() {
            return Some(if sym::cmp("ltb", self.0, o.0) {
                Ordering::Less
            } else if sym::cmp("ltb", o.0, self.0) {
                Ordering::Greater
            } else {
                Ordering::Equal
            });
        }
        match (self.val(), o.val()) {
            (Val::Nan, _) | (_, Val::Nan) => None,
            (Val::Fin(a), Val::Fin(b)) => Some(a.cmp(&b)),
            (a, b) if a == b => Some(Ordering::Equal),
            (Val::NegInf, _) | (_, Val::PosInf) => Some(Ordering::Less),
            _ => Some(Ordering::Greater),
        }
    }
}

macro_rules! binop {
    ($T:ident, $f:ident, $TA:ident, $fa:ident, $m:ident) => {
        impl $T for Xq {
            type Output = Xq;
            #[inline]
            fn $f(self, o: Xq) -> Xq {
                if sym::on() {
                    return Xq(sym::mk(Node::Bin(stringify!($m), self.0, o.0)));
                }
                Xq::new(self.rat().$m(&o.rat()))
            }
        }
        impl $TA for Xq {
            #[inline]
            fn $fa(&mut self, o: Xq) {
                if sym::on() {
                    *self = Xq(sym::mk(Node::Bin(stringify!($m), self.0, o.0)));
                    return;
                }
                *self = Xq::new(self.rat().$m(&o.rat()));
            }
        }
    };
}
binop!(Add, add, AddAssign, add_assign, add);
binop!(Sub, sub, SubAssign, sub_assign, sub);
binop!(Mul, mul, MulAssign, mul_assign, mul);
binop!(Div, div, DivAssign, div_assign, div);
binop!(Rem, rem, RemAssign, rem_assign, rem);
impl Neg for Xq {
    type Output = Xq;
    fn neg(self) -> Xq {
        if sym::on() {
            return Xq(sym::mk(Node::Un("opp", self.0)));
        }
        Xq::new(self.rat().neg())
    }
}
impl Zero for Xq {
    fn zero() -> Xq {
        Xq::new(BigRat::zero())
    }
    fn is_zero(&self) -> bool {
        if sym::on() {
            return sym::cmp("eqb", self.0, Xq::new(BigRat::zero()).0);
        }
        matches!(self.val(), Val::Fin(r) if r.is_zero())
    }
}
impl One for Xq {
    fn one() -> Xq {
        Xq::new(BigRat::one())
    }
}
impl Num for Xq {
    type FromStrRadixErr = ();
    fn from_str_radix(_: &str, _: u32) -> Result<Xq, ()> {
        Err(())
    }
}
impl ToPrimitive for Xq {
    fn to_i64(&self) -> Option<i64> {
        self.rat().trunc().to_i128().and_then(|x| if x >= i64::MIN as i128 && x <= i64::MAX as i128 { Some(x as i64) } else { None })
    }
    fn to_u64(&self) -> Option<u64> {
        self.rat().trunc().to_i128().and_then(|x| if x >= 0 && x <= u64::MAX as i128 { Some(x as u64) } else { None })
    }
    fn to_f64(&self) -> Option<f64> {
        Some(match self.val() {
            Val::Fin(r) => r.to_f64(),
            Val::Nan => f64::NAN,
            Val::PosInf => f64::INFINITY,
            Val::NegInf => f64::NEG_INFINITY,
        })
    }
}
impl NumCast for Xq {
    fn from<T: ToPrimitive>(n: T) -> Option<Xq> {
        // every cast in cgmath is from a primitive literal or a small usize: exact through f64
        let f = n.to_f64()?;
        if f.is_nan() {
            Some(Xq::nan_value())
        } else if f.is_infinite() {
            Some(Xq::inf_value(f < 0.0))
        } else if sym::on() {
            Some(Xq(sym::mk(Node::Cast(BigRat::from_f64(f)))))
        } else {
            Some(Xq::new(BigRat::from_f64(f)))
        }
    }
}

fn unary(x: Xq, f: impl Fn(&BigRat) -> BigRat) -> Xq {
    // symbolic mode: x.rat() is only defined on constants (anything else is reported as unsupported)
    Xq::new(f(&x.rat()))
}
fn sym_un(op: &'static str, x: Xq) -> Xq {
    Xq(sym::mk(Node::Un(op, x.0)))
}

pub fn eps64() -> BigRat {
    BigRat::new(BigInt::one(), BigInt::one().shl(52))
}

impl Float for Xq {
    fn nan() -> Xq {
        Xq::nan_value()
    }
    fn infinity() -> Xq {
        Xq::inf_value(false)
    }
    fn neg_infinity() -> Xq {
        Xq::inf_value(true)
    }
    fn neg_zero() -> Xq {
        Xq::zero()
    }
    fn min_value() -> Xq {
        Xq::new(BigRat::from_f64(f64::MIN))
    }
    fn min_positive_value() -> Xq {
        Xq::new(BigRat::from_f64(f64::MIN_POSITIVE))
    }
    fn max_value() -> Xq {
        Xq::new(BigRat::from_f64(f64::MAX))
    }
    fn epsilon() -> Xq {
        if sym::on() {
            return Xq(sym::mk(Node::Eps));
        }
        Xq::new(eps64())
    }
    fn is_nan(self) -> bool {
        self.val() == Val::Nan
    }
    fn is_infinite(self) -> bool {
        matches!(self.val(), Val::PosInf | Val::NegInf)
    }
    fn is_finite(self) -> bool {
        if sym::on() {
            if sym::konst(self.0).is_some() {
                return true;
            }
            return sym::decide("is_finite", vec![self.0], 0);
        }
        matches!(self.val(), Val::Fin(_))
    }
    fn is_normal(self) -> bool {
        matches!(self.val(), Val::Fin(r) if !r.is_zero())
    }
    fn classify(self) -> std::num::FpCategory {
        match self.val() {
            Val::Nan => std::num::FpCategory::Nan,
            Val::PosInf | Val::NegInf => std::num::FpCategory::Infinite,
            Val::Fin(r) => {
                if r.is_zero() {
                    std::num::FpCategory::Zero
                } else {
                    std::num::FpCategory::Normal
                }
            }
        }
    }
    fn floor(self) -> Xq {
        unary(self, |r| BigRat::new(r.floor(), BigInt::one()))
    }
    fn ceil(self) -> Xq {
        unary(self, |r| BigRat::new(r.neg().floor(), BigInt::one()).neg())
    }
    fn round(self) -> Xq {
        // half away from zero
        unary(self, |r| {
            let half = BigRat::from_i(1, 2);
            if r.is_neg() {
                BigRat::new(r.neg().add(&half).floor(), BigInt::one()).neg()
            } else {
                BigRat::new(r.add(&half).floor(), BigInt::one())
            }
        })
    }
    fn trunc(self) -> Xq {
        unary(self, |r| BigRat::new(r.trunc(), BigInt::one()))
    }
    fn fract(self) -> Xq {
        unary(self, |r| r.sub(&BigRat::new(r.trunc(), BigInt::one())))
    }
    fn abs(self) -> Xq {
        if sym::on() && sym::konst(self.0).is_none() {
            // Scalar.fabs: if x < 0 then -x else x
            return if self < Xq::zero() { -self } else { self };
        }
        unary(self, |r| r.abs())
    }
    fn signum(self) -> Xq {
        // f64 semantics: signum(+0.0) = 1
        unary(self, |r| if r.is_neg() { BigRat::int(-1) } else { BigRat::int(1) })
    }
    fn is_sign_positive(self) -> bool {
        match self.val() {
            Val::Fin(r) => !r.is_neg(),
            Val::PosInf => true,
            _ => false,
        }
    }
    fn is_sign_negative(self) -> bool {
        match self.val() {
            Val::Fin(r) => r.is_neg(),
            Val::NegInf => true,
            _ => false,
        }
    }
    fn mul_add(self, a: Xq, b: Xq) -> Xq {
        self * a + b
    }
    fn recip(self) -> Xq {
        if sym::on() {
            return sym_un("inv", self);
        }
        unary(self, |r| r.recip())
    }
    fn powi(self, n: i32) -> Xq {
        if sym::on() {
            if n < 1 || n > 8 {
                sym::unsupported("powi exponent");
            }
            let mut r = self;
            for _ in 1..n {
                r = r * self;
            }
            return r;
        }
        unary(self, |r| r.pow(n))
    }
    fn powf(self, _: Xq) -> Xq {
        panic!("unmodelled: powf")
    }
    fn sqrt(self) -> Xq {
        if sym::on() {
            return sym_un("sqrt", self);
        }
        let r = self.rat();
        match r.exact_sqrt() {
            Some(s) => Xq::new(s),
            None if probe_float() && !r.is_neg() => {
                let a = BigRat::from_f64(r.to_f64().sqrt());
                ST.with(|st| {
                    let mut st = st.borrow_mut();
                    if !st.log.sqrt.iter().any(|(k, _)| *k == r) {
                        st.log.sqrt.push((r.clone(), a.clone()));
                    }
                });
                // the same question must get the same answer within a case
                let a = ST.with(|st| st.borrow().log.sqrt.iter().find(|(k, _)| *k == r).map(|(_, v)| v.clone()).unwrap());
                Xq::new(a)
            }
            None => panic!("inexact sqrt of {}", r),
        }
    }
    fn exp(self) -> Xq {
        panic!("unmodelled: exp")
    }
    fn exp2(self) -> Xq {
        panic!("unmodelled: exp2")
    }
    fn ln(self) -> Xq {
        panic!("unmodelled: ln")
    }
    fn log(self, _: Xq) -> Xq {
        panic!("unmodelled: log")
    }
    fn log2(self) -> Xq {
        panic!("unmodelled: log2")
    }
    fn log10(self) -> Xq {
        panic!("unmodelled: log10")
    }
    fn max(self, o: Xq) -> Xq {
        if self >= o {
            self
        } else {
            o
        }
    }
    fn min(self, o: Xq) -> Xq {
        if self <= o {
            self
        } else {
            o
        }
    }
    fn abs_sub(self, o: Xq) -> Xq {
        if self <= o {
            Xq::zero()
        } else {
            self - o
        }
    }
    fn cbrt(self) -> Xq {
        panic!("unmodelled: cbrt")
    }
    fn hypot(self, o: Xq) -> Xq {
        (self * self + o * o).sqrt()
    }
    fn sin(self) -> Xq {
        self.sin_cos().0
    }
    fn cos(self) -> Xq {
        self.sin_cos().1
    }
    fn tan(self) -> Xq {
        if sym::on() {
            return sym_un("tan", self);
        }
        let (s, c) = self.sin_cos();
        s / c
    }
    fn sin_cos(self) -> (Xq, Xq) {
        if sym::on() {
            return (sym_un("sin", self), sym_un("cos", self));
        }
        let (s, c) = oracle_sincos(&self.rat());
        (Xq::new(s), Xq::new(c))
    }
    fn asin(self) -> Xq {
        if sym::on() {
            return sym_un("asin", self);
        }
        let x = self.rat();
        let h = std::f64::consts::FRAC_PI_2;
        let xf = x.to_f64();
        let r = oracle_inverse("asin", -h, h, true, true, &|_c, s| *s == x, &|| xf.asin());
        ST.with(|st| {
            let mut st = st.borrow_mut();
            if !st.log.asin.iter().any(|(k, _)| *k == x) {
                st.log.asin.push((x.clone(), r.clone()));
            }
        });
        Xq::new(r)
    }
    fn acos(self) -> Xq {
        if sym::on() {
            return sym_un("acos", self);
        }
        let x = self.rat();
        let xf = x.to_f64();
        let r = oracle_inverse("acos", 0.0, std::f64::consts::PI, true, true, &|c, _s| *c == x, &|| xf.acos());
        ST.with(|st| {
            let mut st = st.borrow_mut();
            if !st.log.acos.iter().any(|(k, _)| *k == x) {
                st.log.acos.push((x.clone(), r.clone()));
            }
        });
        Xq::new(r)
    }
    fn atan(self) -> Xq {
        if sym::on() {
            return sym_un("atan", self);
        }
        let x = self.rat();
        let h = std::f64::consts::FRAC_PI_2;
        let xf = x.to_f64();
        let r = oracle_inverse("atan", -h, h, false, false, &|c, s| !c.is_zero() && s.div(c) == x, &|| xf.atan());
        ST.with(|st| {
            let mut st = st.borrow_mut();
            if !st.log.atan.iter().any(|(k, _)| *k == x) {
                st.log.atan.push((x.clone(), r.clone()));
            }
        });
        Xq::new(r)
    }
    fn atan2(self, other: Xq) -> Xq {
        // self = y, other = x
        if sym::on() {
            return Xq(sym::mk(Node::Bin("atan2", self.0, other.0)));
        }
        let y = self.rat();
        let x = other.rat();
        let r = if y.is_zero() && x.is_zero() {
            BigRat::zero()
        } else {
            let p = std::f64::consts::PI;
            oracle_inverse("atan2", -p, p, false, true, &|c, s| {
                // (s, c) a positive multiple of (y, x)
                y.mul(c) == x.mul(s)
                    && (s.is_neg() == y.is_neg())
                    && (s.is_zero() == y.is_zero())
                    && (c.is_neg() == x.is_neg())
                    && (c.is_zero() == x.is_zero())
            }, &|| y.to_f64().atan2(x.to_f64()))
        };
        ST.with(|st| {
            let mut st = st.borrow_mut();
            if !st.log.atan2.iter().any(|((ky, kx), _)| *ky == y && *kx == x) {
                st.log.atan2.push(((y.clone(), x.clone()), r.clone()));
            }
        });
        Xq::new(r)
    }
    fn exp_m1(self) -> Xq {
        panic!("unmodelled: exp_m1")
    }
    fn ln_1p(self) -> Xq {
        panic!("unmodelled: ln_1p")
    }
    fn sinh(self) -> Xq {
        panic!("unmodelled: sinh")
    }
    fn cosh(self) -> Xq {
        panic!("unmodelled: cosh")
    }
    fn tanh(self) -> Xq {
        panic!("unmodelled: tanh")
    }
    fn asinh(self) -> Xq {
        panic!("unmodelled: asinh")
    }
    fn acosh(self) -> Xq {
        panic!("unmodelled: acosh")
    }
    fn atanh(self) -> Xq {
        panic!("unmodelled: atanh")
    }
    fn integer_decode(self) -> (u64, i16, i8) {
        panic!("unmodelled: integer_decode")
    }
}

// the `approx` traits: exact definitions with binary64 parameters, mirrored verbatim by Exec/ExecQ.v
fn fin2(a: &Xq, b: &Xq) -> Option<(BigRat, BigRat)> {
    match (a.val(), b.val()) {
        (Val::Fin(x), Val::Fin(y)) => Some((x, y)),
        _ => None,
    }
}
impl approx::AbsDiffEq for Xq {
    type Epsilon = Xq;
    fn default_epsilon() -> Xq {
        if sym::on() {
            return Xq(sym::mk(Node::Eps));
        }
        Xq::new(eps64())
    }
    fn abs_diff_eq(&self, o: &Xq, e: Xq) -> bool {
        if sym::on() {
            return sym::decide("abs_diff_eq", vec![self.0, o.0, e.0], 0);
        }
        match fin2(self, o) {
            Some((a, b)) => a.sub(&b).abs() <= e.rat(),
            None => self == o,
        }
    }
}
impl approx::RelativeEq for Xq {
    fn default_max_relative() -> Xq {
        if sym::on() {
            return Xq(sym::mk(Node::MaxRel));
        }
        Xq::new(eps64())
    }
    fn relative_eq(&self, o: &Xq, e: Xq, r: Xq) -> bool {
        if sym::on() {
            return sym::decide("relative_eq", vec![self.0, o.0, e.0, r.0], 0);
        }
        match fin2(self, o) {
            Some((a, b)) => {
                if a == b {
                    return true;
                }
                let d = a.sub(&b).abs();
                if d <= e.rat() {
                    return true;
                }
                let largest = if b.abs() > a.abs() { b.abs() } else { a.abs() };
                d <= largest.mul(&r.rat())
            }
            None => self == o,
        }
    }
}
impl approx::UlpsEq for Xq {
    fn default_max_ulps() -> u32 {
        if sym::on() {
            return 0x5EED_0004; // sentinel: rendered as `default_max_ulps A` by symgen.py
        }
        4
    }
    fn ulps_eq(&self, o: &Xq, e: Xq, u: u32) -> bool {
        if sym::on() {
            return sym::decide("ulps_eq", vec![self.0, o.0, e.0], u);
        }
        match fin2(self, o) {
            Some((a, b)) => {
                let d = a.sub(&b).abs();
                if d <= e.rat() {
                    return true;
                }
                if a.is_neg() != b.is_neg() {
                    return false;
                }
                let largest = if b.abs() > a.abs() { b.abs() } else { a.abs() };
                d <= largest.mul(&BigRat::int(u as i128).mul(&eps64()))
            }
            None => self == o,
        }
    }
}
