//! C11 — magnitude, distance, normalize, angle, project_on (structure.rs defaults, vector.rs overrides).
use crate::bigrat::BigRat;
use crate::core::*;
use crate::xq::{self, Xq};
use cgmath::*;
use num_traits::Float;

fn chk(ok: bool, what: String) -> Result<(), String> {
    if ok { Ok(()) } else { Err(what) }
}
pub fn q(n: i128, d: i128) -> BigRat { BigRat::from_i(n, d) }
pub fn scale(v: &[BigRat], k: &BigRat) -> Vec<BigRat> { v.iter().map(|x| x.mul(k)).collect() }
pub fn addv(a: &[BigRat], b: &[BigRat]) -> Vec<BigRat> { a.iter().zip(b).map(|(x, y)| x.add(y)).collect() }
pub fn cat(parts: &[&[BigRat]]) -> Vec<BigRat> { parts.iter().flat_map(|p| p.iter().cloned()).collect() }
fn pt1(x: &[Xq]) -> Point1<Xq> { Point1::new(x[0]) }

/// a rational vector of rational length in dimension n (1..4): rational unit vector times a generic factor
pub fn ratlen(ctx: &mut Ctx, n: usize) -> Vec<BigRat> {
    let k = ctx.generic(1).pop().unwrap();
    let u = match n { 1 => vec![BigRat::one()], 2 => ctx.unit2(), 3 => ctx.unit3(), _ => ctx.unit4() };
    scale(&u, &k)
}

/// orthonormal rational frames (e1, e2) in dimension n
pub fn frame(ctx: &mut Ctx, n: usize) -> (Vec<BigRat>, Vec<BigRat>) {
    match n {
        2 => { let u = ctx.unit2(); (u.clone(), vec![u[1].neg(), u[0].clone()]) }
        3 => {
            // two columns of the rotation matrix of a rational unit quaternion (w, x, y, z)
            let qv = ctx.unit4(); let (w, x, y, z) = (&qv[0], &qv[1], &qv[2], &qv[3]);
            let two = BigRat::int(2); let one = BigRat::one();
            let e1 = vec![one.sub(&two.mul(&y.mul(y).add(&z.mul(z)))), two.mul(&x.mul(y).add(&w.mul(z))), two.mul(&x.mul(z).sub(&w.mul(y)))];
            let e2 = vec![two.mul(&x.mul(y).sub(&w.mul(z))), one.sub(&two.mul(&x.mul(x).add(&z.mul(z)))), two.mul(&y.mul(z).add(&w.mul(x)))];
            (e1, e2)
        }
        _ => {
            // (a, b, c, d) and (-b, a, -d, c) are orthogonal and of equal length
            let u = ctx.unit4();
            (u.clone(), vec![u[1].neg(), u[0].clone(), u[3].neg(), u[2].clone()])
        }
    }
}

/// two vectors in the plane of a rational frame at lattice angles k*beta and j*beta, with rational lengths;
/// returns (a, b, j - k)
fn lattice_pair(ctx: &mut Ctx, n: usize, tn: i128, td: i128) -> (Vec<BigRat>, Vec<BigRat>, i64) {
    xq::reset();
    let base = xq::set_base_t(tn, td);
    let kmax = ((std::f64::consts::PI / base.beta).floor() as i64 - 1).max(1).min(6);
    let k = ctx.rng.range(-kmax, kmax);
    let mut j = ctx.rng.range(-kmax, kmax);
    if j == k { j = k + 1; }
    // keep |j - k| * beta inside (0, pi)
    while ((j - k).abs() as f64) * base.beta >= std::f64::consts::PI - 0.05 { if j > k { j -= 1 } else { j += 1 } }
    if j == k { j = k + 1; }
    let (e1, e2) = frame(ctx, n);
    xq::reset(); xq::set_base_t(tn, td);
    let dir = |m: i64| -> Vec<BigRat> {
        let (s, c) = Xq::new(base.v.mul(&BigRat::int(m as i128))).sin_cos();
        addv(&scale(&e1, &c.rat()), &scale(&e2, &s.rat()))
    };
    let g = ctx.generic(2);
    let a = scale(&dir(k), &g[0].abs());
    let b = scale(&dir(j), &g[1].abs());
    (a, b, j - k)
}

macro_rules! dim_cases {
    ($ctx:ident, $n:expr, $mk:ident, $pre:expr) => {{
        let nm = |s: &str| format!("{}_{}", $pre, s);
        let none = || {};
        let a = ratlen($ctx, $n);
        let m = $ctx.generic(1).pop().unwrap();
        $ctx.case(&nm("magnitude"), "nt:rational-length", &a, &none, &|x| $mk(x).magnitude());
        $ctx.case(&nm("magnitude2"), "nt:rational-length", &a, &none, &|x| $mk(x).magnitude2());
        $ctx.case(&nm("normalize"), "nt:rational-length", &a, &none, &|x| $mk(x).normalize());
        $ctx.case(&nm("normalize_to"), "nt:rational-length", &cat(&[&a, &[m.clone()]]), &none, &|x| $mk(x).normalize_to(x[$n]));
        let d = ratlen($ctx, $n);
        let b = addv(&a, &d);
        let ab = cat(&[&a, &b]);
        $ctx.case(&nm("distance"), "nt:rational-length", &ab, &none, &|x| $mk(x).distance($mk(&x[$n..])));
        $ctx.case(&nm("distance2"), "nt:rational-length", &ab, &none, &|x| $mk(x).distance2($mk(&x[$n..])));
        let g = $ctx.generic(2 * $n);
        $ctx.case(&nm("distance2"), "nt:generic", &g, &none, &|x| $mk(x).distance2($mk(&x[$n..])));
        $ctx.case(&nm("magnitude2"), "nt:generic", &g[..$n].to_vec(), &none, &|x| $mk(x).magnitude2());
        $ctx.case(&nm("project_on"), "nt:generic", &g, &none, &|x| $mk(x).project_on($mk(&x[$n..])));
    }};
}

macro_rules! angle_cases {
    ($ctx:ident, $n:expr, $mk:ident, $pre:expr) => {{
        let nm = |s: &str| format!("{}_{}", $pre, s);
        let (tn, td) = $ctx.base_t();
        let (a, b, _) = lattice_pair($ctx, $n, tn, td);
        let setup = move || { xq::set_base_t(tn, td); };
        $ctx.case(&nm("angle"), "nt:lattice", &cat(&[&a, &b]), &setup, &|x| $mk(x).angle($mk(&x[$n..])));
        $ctx.case(&nm("angle"), "nt:lattice-swapped", &cat(&[&b, &a]), &setup, &|x| $mk(x).angle($mk(&x[$n..])));
    }};
}

fn qn4(x: &[Xq]) -> Quaternion<Xq> { qn(x) }

pub fn cases(ctx: &mut Ctx) {
    for _ in 0..6 * ctx.scale {
        dim_cases!(ctx, 1, v1, "v1");
        dim_cases!(ctx, 2, v2, "v2");
        dim_cases!(ctx, 3, v3, "v3");
        dim_cases!(ctx, 4, v4, "v4");
        dim_cases!(ctx, 4, qn4, "quat");
        // points: distance only
        let none = || {};
        for n in 1..=3usize {
            let a = ctx.generic(n);
            let d = ratlen(ctx, n);
            let b = addv(&a, &d);
            let ab = cat(&[&a, &b]);
            match n {
                1 => { ctx.case("p1_distance", "nt:rational-length", &ab, &none, &|x| pt1(x).distance(pt1(&x[1..])));
                       ctx.case("p1_distance2", "nt:rational-length", &ab, &none, &|x| pt1(x).distance2(pt1(&x[1..]))); }
                2 => { ctx.case("p2_distance", "nt:rational-length", &ab, &none, &|x| p2(x).distance(p2(&x[2..])));
                       ctx.case("p2_distance2", "nt:rational-length", &ab, &none, &|x| p2(x).distance2(p2(&x[2..]))); }
                _ => { ctx.case("p3_distance", "nt:rational-length", &ab, &none, &|x| p3(x).distance(p3(&x[3..])));
                       ctx.case("p3_distance2", "nt:rational-length", &ab, &none, &|x| p3(x).distance2(p3(&x[3..]))); }
            }
        }
        angle_cases!(ctx, 2, v2, "v2");
        angle_cases!(ctx, 3, v3, "v3");
        angle_cases!(ctx, 4, v4, "v4");
        angle_cases!(ctx, 4, qn4, "quat");
        // 1-D: the angle is 0 or (the scalar's) acos(-1)
        let g = ctx.generic(2);
        let fsetup = || { xq::set_float_fallback(true); };
        ctx.case("v1_angle", "nt:1d", &g, &fsetup, &|x| v1(x).angle(v1(&x[1..])));
        // generic 2-D / 4-D pairs: the inverse function is answered with the exact value of the f64 libm result
        let g = ctx.generic(4);
        ctx.case("v2_angle", "nt:generic", &g, &fsetup, &|x| v2(x).angle(v2(&x[2..])));
        let (a, b) = (ratlen(ctx, 4), ratlen(ctx, 4));
        ctx.case("v4_angle", "nt:generic", &cat(&[&a, &b]), &fsetup, &|x| v4(x).angle(v4(&x[4..])));
        ctx.case("quat_angle", "nt:generic", &cat(&[&a, &b]), &fsetup, &|x| qn(x).angle(qn(&x[4..])));
    }
}

macro_rules! dim_preds {
    ($ctx:ident, $n:expr, $mk:ident, $name:expr) => {{
        let none = || {};
        let a = ratlen($ctx, $n);
        let d = ratlen($ctx, $n);
        let b = addv(&a, &d);
        let m = $ctx.generic(1).pop().unwrap();
        $ctx.pred(&format!("{}:magnitude^2 = magnitude2 >= 0", $name), &a, &none, &|x| {
            let (mg, m2) = ($mk(x).magnitude(), $mk(x).magnitude2());
            chk(mg * mg == m2 && m2 >= Xq::q(0, 1) && mg >= Xq::q(0, 1), format!("magnitude {:?}, magnitude2 {:?}", mg, m2))
        });
        $ctx.pred(&format!("{}:distance symmetric, = magnitude(u - v), distance2 its square", $name), &cat(&[&a, &b]), &none, &|x| {
            let (u, v) = ($mk(x), $mk(&x[$n..]));
            let (duv, dvu) = (u.distance(v), v.distance(u));
            chk(duv == dvu, format!("distance(u,v) = {:?} but distance(v,u) = {:?}", duv, dvu))?;
            chk(duv == (u - v).magnitude(), format!("distance(u,v) = {:?} but |u - v| = {:?}", duv, (u - v).magnitude()))?;
            chk(duv * duv == u.distance2(v), format!("distance^2 = {:?} but distance2 = {:?}", duv * duv, u.distance2(v)))
        });
        $ctx.pred(&format!("{}:normalize has length 1, normalize_to length |m|, positive multiples", $name), &cat(&[&a, &[m.clone()]]), &none, &|x| {
            let v = $mk(x);
            let nv = v.normalize();
            chk(nv.magnitude() == Xq::q(1, 1), format!("|normalize(v)| = {:?}", nv.magnitude()))?;
            chk(nv * v.magnitude() == v, "normalize(v) * |v| != v".to_string())?;
            let mm = x[$n];
            let nt = v.normalize_to(mm);
            let am = if mm < Xq::q(0, 1) { -mm } else { mm };
            chk(nt.magnitude() == am, format!("|normalize_to(v, m)| = {:?}, |m| = {:?}", nt.magnitude(), am))?;
            chk(nt * v.magnitude() == v * mm, "normalize_to(v, m) * |v| != v * m".to_string())
        });
        let g = $ctx.generic(2 * $n);
        $ctx.pred(&format!("{}:project_on parallel, remainder orthogonal", $name), &g, &none, &|x| {
            let (u, v) = ($mk(x), $mk(&x[$n..]));
            let p = u.project_on(v);
            chk((u - p).dot(v) == Xq::q(0, 1), format!("(u - project_on(u,v)).v = {:?}", (u - p).dot(v)))?;
            chk(p * v.magnitude2() == v * u.dot(v), "project_on(u,v) is not v * (u.v / v.v)".to_string())
        });
    }};
}

macro_rules! angle_preds {
    ($ctx:ident, $n:expr, $mk:ident, $name:expr, $signed:expr) => {{
        let (tn, td) = $ctx.base_t();
        let (a, b, diff) = lattice_pair($ctx, $n, tn, td);
        let setup = move || { xq::set_base_t(tn, td); };
        let expect = { xq::reset(); let base = xq::set_base_t(tn, td); base.v.mul(&BigRat::int(if $signed { diff as i128 } else { diff.abs() as i128 })) };
        $ctx.pred(&format!("{}:angle", $name), &cat(&[&a, &b]), &setup, &|x| {
            let (u, v) = ($mk(x), $mk(&x[$n..]));
            let t = u.angle(v);
            chk(t.0.rat() == expect, format!("angle(u,v) = {:?}, expected {} (the lattice angle between them{})", t.0, expect, if $signed { ", signed counter-clockwise" } else { "" }))?;
            chk(u.magnitude() * v.magnitude() * t.cos() == u.dot(v), "|u||v|cos(angle) != u.v".to_string())?;
            let back = v.angle(u);
            if $signed { chk(back.0 == -t.0, format!("2-D: angle(v,u) = {:?} is not -angle(u,v) = {:?}", back.0, -t.0)) }
            else { chk(back.0 == t.0, format!("angle(v,u) = {:?} differs from angle(u,v) = {:?}", back.0, t.0)) }
        });
    }};
}

fn native_preds(ctx: &mut Ctx) {
    // oblique native f64 pairs: |u||v|cos(angle) = u.v up to rounding, ranges, the 2-D sign
    for _ in 0..60 * ctx.scale {
        let r: Vec<f64> = (0..8).map(|_| ctx.rng.range(-1000, 1000) as f64 / 64.0 + 0.013).collect();
        ctx.pred_evals += 1;
        let mut bad: Option<String> = None;
        let pi = std::f64::consts::PI;
        let close = |a: f64, b: f64, s: f64| (a - b).abs() <= 1e-9 * s.max(1.0);
        {
            let (u, v) = (Vector2::new(r[0], r[1]), Vector2::new(r[2], r[3]));
            let t = u.angle(v).0; let s = u.magnitude() * v.magnitude();
            if !(close(s * t.cos(), u.dot(v), s) && close(s * t.sin(), u.perp_dot(v), s) && t >= -pi && t <= pi) { bad = Some(format!("Vector2 angle {:e}", t)); }
        }
        {
            let (u, v) = (Vector3::new(r[0], r[1], r[2]), Vector3::new(r[3], r[4], r[5]));
            let t = u.angle(v).0; let s = u.magnitude() * v.magnitude();
            if !(close(s * t.cos(), u.dot(v), s) && t >= 0.0 && t <= pi && close(t, v.angle(u).0, 1.0)) { bad = Some(format!("Vector3 angle {:e}", t)); }
        }
        {
            let (u, v) = (Vector4::new(r[0], r[1], r[2], r[3]), Vector4::new(r[4], r[5], r[6], r[7]));
            let t = u.angle(v).0; let s = u.magnitude() * v.magnitude();
            if !(close(s * t.cos(), u.dot(v), s) && t >= 0.0 && t <= pi && close(t, v.angle(u).0, 1.0)) { bad = Some(format!("Vector4 angle {:e}", t)); }
            let (p, w) = (Quaternion::new(r[0], r[1], r[2], r[3]), Quaternion::new(r[4], r[5], r[6], r[7]));
            let t = p.angle(w).0; let s = p.magnitude() * w.magnitude();
            if !(close(s * t.cos(), p.dot(w), s) && t >= 0.0 && t <= pi) { bad = Some(format!("Quaternion angle {:e}", t)); }
            if !(close(p.normalize().magnitude(), 1.0, 1.0) && close(u.normalize_to(r[7]).magnitude(), r[7].abs(), r[7].abs())
                 && close(p.distance(w), (p - w).magnitude(), 1.0) && close(Point3::new(r[0], r[1], r[2]).distance(Point3::new(r[3], r[4], r[5])), (Vector3::new(r[0], r[1], r[2]) - Vector3::new(r[3], r[4], r[5])).magnitude(), 1.0)) {
                bad = Some("normalize / normalize_to / distance (native f64)".into());
            }
        }
        if let Some(d) = bad {
            ctx.pred_fails.push(PredFail { pred: "native-f64:metric".into(), inp: r.iter().map(|x| BigRat::from_f64(*x)).collect(), detail: d });
        }
    }
}

pub fn preds(ctx: &mut Ctx) {
    for _ in 0..10 * ctx.scale {
        dim_preds!(ctx, 1, v1, "Vector1");
        dim_preds!(ctx, 2, v2, "Vector2");
        dim_preds!(ctx, 3, v3, "Vector3");
        dim_preds!(ctx, 4, v4, "Vector4");
        dim_preds!(ctx, 4, qn4, "Quaternion");
        angle_preds!(ctx, 2, v2, "Vector2", true);
        angle_preds!(ctx, 3, v3, "Vector3", false);
        angle_preds!(ctx, 4, v4, "Vector4", false);
        angle_preds!(ctx, 4, qn4, "Quaternion", false);
        // points
        let none = || {};
        let a = ctx.generic(3);
        let d = ratlen(ctx, 3);
        let b = addv(&a, &d);
        ctx.pred("Point3:distance symmetric, = magnitude(p - q)", &cat(&[&a, &b]), &none, &|x| {
            let (p, r) = (p3(x), p3(&x[3..]));
            chk(p.distance(r) == r.distance(p) && p.distance(r) == (p - r).magnitude() && p.distance(r) * p.distance(r) == p.distance2(r), "Point3 distance".to_string())
        });
        let a = ctx.generic(2);
        let d = ratlen(ctx, 2);
        let b = addv(&a, &d);
        ctx.pred("Point2:distance symmetric, = magnitude(p - q)", &cat(&[&a, &b]), &none, &|x| {
            let (p, r) = (p2(x), p2(&x[2..]));
            chk(p.distance(r) == r.distance(p) && p.distance(r) == (p - r).magnitude() && p.distance(r) * p.distance(r) == p.distance2(r), "Point2 distance".to_string())
        });
        let a = ctx.generic(2);
        ctx.pred("Point1:distance symmetric, = magnitude(p - q)", &a, &none, &|x| {
            let (p, r) = (pt1(x), pt1(&x[1..]));
            chk(p.distance(r) == r.distance(p) && p.distance(r) == (p - r).magnitude() && p.distance(r) * p.distance(r) == p.distance2(r), "Point1 distance".to_string())
        });
    }
    native_preds(ctx);
}
