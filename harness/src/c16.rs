//! C16 — layout, indexing, conversions and swizzles (macros.rs, vector.rs, point.rs, matrix.rs, quaternion.rs, build.rs).
//! Everything here is observed natively on i32, f64 and a non-numeric Copy element type.
use crate::bigrat::BigRat;
use crate::core::*;
use cgmath::*;
use crate::xq::Xq;

pub trait Comps { fn comps(&self) -> Vec<i32>; }
impl Comps for Vector1<i32> { fn comps(&self) -> Vec<i32> { vec![self.x] } }
impl Comps for Vector2<i32> { fn comps(&self) -> Vec<i32> { vec![self.x, self.y] } }
impl Comps for Vector3<i32> { fn comps(&self) -> Vec<i32> { vec![self.x, self.y, self.z] } }
impl Comps for Vector4<i32> { fn comps(&self) -> Vec<i32> { vec![self.x, self.y, self.z, self.w] } }
impl Comps for Point1<i32> { fn comps(&self) -> Vec<i32> { vec![self.x] } }
impl Comps for Point2<i32> { fn comps(&self) -> Vec<i32> { vec![self.x, self.y] } }
impl Comps for Point3<i32> { fn comps(&self) -> Vec<i32> { vec![self.x, self.y, self.z] } }

/// a non-numeric element type
#[derive(Copy, Clone, PartialEq, Debug)]
pub enum Tok { T(u8) }

fn chk(ok: bool, what: &str) -> Result<(), String> {
    if ok { Ok(()) } else { Err(what.to_string()) }
}
fn panics<F: FnOnce() -> R + std::panic::UnwindSafe, R>(f: F) -> bool { std::panic::catch_unwind(f).is_err() }

// views of a vector-like type with n components of element type E
macro_rules! vec_views {
    ($name:expr, $T:ident, $n:expr, $E:ty, $vals:expr, $tuple:ty, $tup_of:expr, [$($f:ident),+]) => {{
        (|| -> Result<(), String> {
            const N: usize = $n;
            let e: [$E; N] = $vals;
            let v = $T { $($f: e[vec_views!(@idx $f)]),+ };
            // arrays and tuples, by value
            let a: [$E; N] = v.into();
            chk(a == e, "Into<[S; n]> exposes the fields in order")?;
            chk($T::from(e) == v, "From<[S; n]>")?;
            let t: $tuple = v.into();
            chk(t == $tup_of(&e), "Into<tuple>")?;
            chk($T::from($tup_of(&e)) == v, "From<tuple>")?;
            // references
            let ar: &[$E; N] = v.as_ref();
            chk(*ar == e, "AsRef<[S; n]>")?;
            let tr: &$tuple = v.as_ref();
            chk(*tr == $tup_of(&e), "AsRef<tuple>")?;
            let back: &$T<$E> = (&e).into();
            chk(*back == v, "From<&[S; n]> for &T")?;
            let tt = $tup_of(&e);
            let back2: &$T<$E> = (&tt).into();
            chk(*back2 == v, "From<&tuple> for &T")?;
            // by index, ranges, out of range
            for i in 0..N { chk(v[i] == e[i], "Index<usize>")?; }
            chk(v[..] == e[..] && v[1.min(N)..] == e[1.min(N)..] && v[..N - 1] == e[..N - 1] && v[0..N] == e[0..N], "range indices")?;
            chk(panics(|| v[N]) && panics(|| v[N + 1]) && panics(|| v[usize::MAX]), "out-of-range index panics")?;
            chk(panics(|| v[0..N + 1].len()) && panics(|| v[N + 1..].len()), "out-of-range range panics")?;
            // writes through each mutable view are visible through the others
            for i in 0..N {
                let repl = e[(i + 1) % N];
                let mut w = v; w[i] = repl;
                let mut x = v; { let m: &mut [$E; N] = x.as_mut(); m[i] = repl; }
                let mut y = e; { let m: &mut $T<$E> = (&mut y).into(); m[i] = repl; }
                let mut z = v; { z[..][i] = repl; }
                let mut expect = e; expect[i] = repl;
                chk(<[$E; N]>::from(w) == expect && <[$E; N]>::from(x) == expect && y == expect && <[$E; N]>::from(z) == expect, "writes through views")?;
                let wr: &[$E; N] = w.as_ref();
                chk(*wr == expect, "write through IndexMut seen through AsRef")?;
            }
            // raw pointers, swap_elements, map, zip
            unsafe { for i in 0..N { chk(*Array::as_ptr(&v).add(i) == e[i], "as_ptr")?; } }
            for i in 0..N { for j in 0..N {
                let mut s = v; s.swap_elements(i, j);
                let mut expect = e; expect.swap(i, j);
                chk(<[$E; N]>::from(s) == expect, "swap_elements")?;
            } }
            { let mut s = v; chk(panics(move || s.swap_elements(0, N)), "swap_elements out of range panics")?; }
            chk(<$T<$E> as Array>::len() == N, "len")?;
            chk(<[$E; N]>::from(<$T<$E> as Array>::from_value(e[0])) == [e[0]; N], "from_value")?;
            let mp = v.map(|c| (c, 1u8));
            let mz = v.zip(v, |a, b| (a, b));
            for i in 0..N { chk(mp[i] == (e[i], 1u8) && mz[i] == (e[i], e[i]), "map / zip")?; }
            Ok(())
        })().map_err(|m| format!("{}: {}", $name, m))
    }};
    (@idx x) => { 0 }; (@idx y) => { 1 }; (@idx z) => { 2 }; (@idx w) => { 3 };
}

macro_rules! mat_views {
    ($name:expr, $M:ident, $V:ident, $n:expr, $nn:expr, $E:ty, $vals:expr) => {{
        (|| -> Result<(), String> {
            const N: usize = $n;
            let flat: [$E; $nn] = $vals;
            let mut nested = [[flat[0]; N]; N];
            for c in 0..N { for r in 0..N { nested[c][r] = flat[N * c + r]; } }
            let m: $M<$E> = nested.into();
            let n2: [[$E; N]; N] = m.into();
            chk(n2 == nested, "Into/From nested arrays (column-major)")?;
            let fr: &[$E; $nn] = m.as_ref();
            chk(*fr == flat, "AsRef<[S; n*n]> is column-major")?;
            let nr: &[[$E; N]; N] = m.as_ref();
            chk(*nr == nested, "AsRef<[[S; n]; n]>")?;
            let b1: &$M<$E> = (&flat).into();
            let b2: &$M<$E> = (&nested).into();
            chk(*b1 == m && *b2 == m, "From<&arrays> for &Matrix")?;
            for c in 0..N { for r in 0..N { chk(m[c][r] == flat[N * c + r], "m[c][r]")?; } }
            for c in 0..N { let col: [$E; N] = m[c].into(); chk(col == nested[c], "Index<usize> returns column c")?; }
            chk(panics(|| m[N]) && panics(|| m[0][N]) && panics(|| m[usize::MAX]), "out-of-range index panics")?;
            for c in 0..N { for r in 0..N {
                let repl = flat[(N * c + r + 1) % $nn];
                let mut w = m; w[c][r] = repl;
                let mut x = m; { let f: &mut [$E; $nn] = x.as_mut(); f[N * c + r] = repl; }
                let mut y = m; { let f: &mut [[$E; N]; N] = y.as_mut(); f[c][r] = repl; }
                let mut z = flat; { let mm: &mut $M<$E> = (&mut z).into(); mm[c][r] = repl; }
                let mut expect = flat; expect[N * c + r] = repl;
                let (wf, xf, yf): (&[$E; $nn], &[$E; $nn], &[$E; $nn]) = (w.as_ref(), x.as_ref(), y.as_ref());
                chk(*wf == expect && *xf == expect && *yf == expect && z == expect, "writes through views")?;
            } }
            Ok(())
        })().map_err(|m| format!("{}: {}", $name, m))
    }};
}

fn t(k: u8) -> Tok { Tok::T(k) }

fn all_views() -> Vec<Result<(), String>> {
    let mut r = vec![];
    macro_rules! elem { ($E:ty, $mk:expr, $sfx:expr) => {{
        let e = |k: usize| -> $E { $mk(k) };
        r.push(vec_views!(concat!("Vector1<", $sfx, ">"), Vector1, 1, $E, [e(1)], ($E,), |a: &[$E; 1]| (a[0],), [x]));
        r.push(vec_views!(concat!("Vector2<", $sfx, ">"), Vector2, 2, $E, [e(1), e(2)], ($E, $E), |a: &[$E; 2]| (a[0], a[1]), [x, y]));
        r.push(vec_views!(concat!("Vector3<", $sfx, ">"), Vector3, 3, $E, [e(1), e(2), e(3)], ($E, $E, $E), |a: &[$E; 3]| (a[0], a[1], a[2]), [x, y, z]));
        r.push(vec_views!(concat!("Vector4<", $sfx, ">"), Vector4, 4, $E, [e(1), e(2), e(3), e(4)], ($E, $E, $E, $E), |a: &[$E; 4]| (a[0], a[1], a[2], a[3]), [x, y, z, w]));
        r.push(mat_views!(concat!("Matrix2<", $sfx, ">"), Matrix2, Vector2, 2, 4, $E, [e(1), e(2), e(3), e(4)]));
        r.push(mat_views!(concat!("Matrix3<", $sfx, ">"), Matrix3, Vector3, 3, 9, $E, [e(1), e(2), e(3), e(4), e(5), e(6), e(7), e(8), e(9)]));
        r.push(mat_views!(concat!("Matrix4<", $sfx, ">"), Matrix4, Vector4, 4, 16, $E, [e(1), e(2), e(3), e(4), e(5), e(6), e(7), e(8), e(9), e(10), e(11), e(12), e(13), e(14), e(15), e(16)]));
    }}; }
    elem!(i32, |k: usize| k as i32 * 7 + 1, "i32");
    elem!(f64, |k: usize| k as f64 * 1.5 + 0.25, "f64");
    elem!(Tok, |k: usize| t(k as u8), "Tok");
    r
}

fn points_quat_misc() -> Vec<Result<(), String>> {
    let mut r = vec![];
    // points (BaseNum is needed for Array on points: use i32 and f64)
    r.push((|| -> Result<(), String> {
        let p = Point3::new(3i32, 5, 8);
        let a: [i32; 3] = p.into(); chk(a == [3, 5, 8], "Point3 Into<[S;3]>")?;
        let tpl: (i32, i32, i32) = p.into(); chk(tpl == (3, 5, 8), "Point3 Into<tuple>")?;
        chk(Point3::from([3, 5, 8]) == p && Point3::from((3, 5, 8)) == p, "Point3 From")?;
        let ar: &[i32; 3] = p.as_ref(); chk(*ar == [3, 5, 8], "Point3 AsRef")?;
        for i in 0..3 { chk(p[i] == a[i], "Point3 index")?; }
        chk(p[..] == a[..] && p[1..] == a[1..] && p[..2] == a[..2] && p[0..3] == a[0..3], "Point3 ranges")?;
        chk(panics(|| p[3]) && panics(|| p[usize::MAX]), "Point3 out-of-range index panics")?;
        let mut w = p; w[1] = 99; let wr: &[i32; 3] = w.as_ref(); chk(*wr == [3, 99, 8], "Point3 IndexMut")?;
        let mut y = [3, 5, 8]; { let m: &mut Point3<i32> = (&mut y).into(); m.z = 77; } chk(y == [3, 5, 77], "Point3 From<&mut array>")?;
        let mut s = p; s.swap_elements(0, 2); chk(s == Point3::new(8, 5, 3), "Point3 swap_elements")?;
        chk(p.map(|c| c * 2) == Point3::new(6, 10, 16) && p.zip(p, |a, b| a - b) == Point3::new(0, 0, 0), "Point3 map/zip")?;
        let p2 = Point2::new(3i32, 5); let a2: [i32; 2] = p2.into(); chk(a2 == [3, 5] && Point2::from((3, 5)) == p2 && p2[1] == 5 && panics(|| p2[2]), "Point2 views")?;
        let p1 = Point1::new(3i32); let a1: [i32; 1] = p1.into(); chk(a1 == [3] && Point1::from((3,)) == p1 && p1[0] == 3 && panics(|| p1[1]), "Point1 views")?;
        unsafe { chk(*Array::as_ptr(&p).add(2) == 8, "Point3 as_ptr")?; }
        Ok(())
    })().map_err(|m| format!("Point: {}", m)));
    // quaternion: memory order x, y, z, s; new takes s first
    r.push((|| -> Result<(), String> {
        let q = Quaternion::new(1.0f64, 2.0, 3.0, 4.0); // w = 1, xi = 2, yj = 3, zk = 4
        chk(q.s == 1.0 && q.v == Vector3::new(2.0, 3.0, 4.0), "Quaternion::new takes the scalar first")?;
        let a: [f64; 4] = q.into(); chk(a == [2.0, 3.0, 4.0, 1.0], "Quaternion Into<[S;4]> = x,y,z,s")?;
        let tp: (f64, f64, f64, f64) = q.into(); chk(tp == (2.0, 3.0, 4.0, 1.0), "Quaternion Into<tuple>")?;
        chk(Quaternion::from([2.0, 3.0, 4.0, 1.0]) == q && Quaternion::from((2.0, 3.0, 4.0, 1.0)) == q, "Quaternion From")?;
        let ar: &[f64; 4] = q.as_ref(); chk(*ar == [2.0, 3.0, 4.0, 1.0], "Quaternion AsRef<[S;4]>")?;
        let tr: &(f64, f64, f64, f64) = q.as_ref(); chk(*tr == (2.0, 3.0, 4.0, 1.0), "Quaternion AsRef<tuple>")?;
        let arr = [2.0, 3.0, 4.0, 1.0]; let qr: &Quaternion<f64> = (&arr).into(); chk(*qr == q, "From<&[S;4]> for &Quaternion")?;
        for i in 0..4 { chk(q[i] == a[i], "Quaternion index")?; }
        chk(q[..] == a[..] && q[1..3] == a[1..3] && q[..2] == a[..2] && q[2..] == a[2..], "Quaternion ranges")?;
        chk(panics(|| q[4]) && panics(|| q[usize::MAX]), "Quaternion out-of-range index panics")?;
        let mut w = q; w[3] = 9.0; chk(w.s == 9.0, "Quaternion IndexMut(3) writes the scalar part")?;
        let mut w = q; w[0] = 9.0; chk(w.v.x == 9.0, "Quaternion IndexMut(0) writes x")?;
        let mut w = q; { let m: &mut [f64; 4] = w.as_mut(); m[1] = 7.0; } chk(w.v.y == 7.0, "Quaternion AsMut")?;
        let mq: mint::Quaternion<f64> = q.into(); chk(mq.s == 1.0 && mq.v.x == 2.0 && mq.v.y == 3.0 && mq.v.z == 4.0 && Quaternion::from(mq) == q, "mint::Quaternion")
    })().map_err(|m| format!("Quaternion: {}", m)));
    // mint, conv, extend/truncate
    r.push((|| -> Result<(), String> {
        let v4 = Vector4::new(1i32, 2, 3, 4); let v3 = Vector3::new(1i32, 2, 3); let v2 = Vector2::new(1i32, 2);
        let m4: mint::Vector4<i32> = v4.into(); chk(m4.x == 1 && m4.y == 2 && m4.z == 3 && m4.w == 4 && Vector4::from(m4) == v4, "mint::Vector4")?;
        let m3: mint::Vector3<i32> = v3.into(); chk(m3.x == 1 && m3.y == 2 && m3.z == 3 && Vector3::from(m3) == v3, "mint::Vector3")?;
        let m2: mint::Vector2<i32> = v2.into(); chk(m2.x == 1 && m2.y == 2 && Vector2::from(m2) == v2, "mint::Vector2")?;
        let p3 = Point3::new(1i32, 2, 3); let mp3: mint::Point3<i32> = p3.into(); chk(mp3.x == 1 && mp3.y == 2 && mp3.z == 3 && Point3::from(mp3) == p3, "mint::Point3")?;
        let p2 = Point2::new(1i32, 2); let mp2: mint::Point2<i32> = p2.into(); chk(mp2.x == 1 && mp2.y == 2 && Point2::from(mp2) == p2, "mint::Point2")?;
        let mm = Matrix3::new(1.0f64, 2.0, 3.0, 4.0, 5.0, 6.0, 7.0, 8.0, 9.0);
        let cm: mint::ColumnMatrix3<f64> = mm.into(); chk(cm.x.y == 2.0 && cm.y.x == 4.0 && cm.z.z == 9.0 && Matrix3::from(cm) == mm, "mint::ColumnMatrix3")?;
        let mm2 = Matrix2::new(1.0f64, 2.0, 3.0, 4.0); let cm2: mint::ColumnMatrix2<f64> = mm2.into(); chk(cm2.x.y == 2.0 && cm2.y.x == 3.0 && Matrix2::from(cm2) == mm2, "mint::ColumnMatrix2")?;
        let mm4 = Matrix4::new(1.0f64, 2.0, 3.0, 4.0, 5.0, 6.0, 7.0, 8.0, 9.0, 10.0, 11.0, 12.0, 13.0, 14.0, 15.0, 16.0);
        let cm4: mint::ColumnMatrix4<f64> = mm4.into(); chk(cm4.x.w == 4.0 && cm4.w.x == 13.0 && cm4.z.y == 10.0 && Matrix4::from(cm4) == mm4, "mint::ColumnMatrix4")?;
        chk(conv::array2(v2) == [1, 2] && conv::array3(v3) == [1, 2, 3] && conv::array4(v4) == [1, 2, 3, 4], "conv::arrayN")?;
        chk(conv::array2x2(mm2) == [[1.0, 2.0], [3.0, 4.0]] && conv::array3x3(mm)[1] == [4.0, 5.0, 6.0] && conv::array4x4(mm4)[3] == [13.0, 14.0, 15.0, 16.0], "conv::arrayNxN")?;
        chk(v2.extend(9) == Vector3::new(1, 2, 9) && v3.extend(9) == Vector4::new(1, 2, 3, 9), "extend")?;
        chk(v3.truncate() == v2 && v4.truncate() == v3, "truncate")?;
        chk(v4.truncate_n(0) == Vector3::new(2, 3, 4) && v4.truncate_n(1) == Vector3::new(1, 3, 4) && v4.truncate_n(2) == Vector3::new(1, 2, 4) && v4.truncate_n(3) == v3, "truncate_n")?;
        unsafe {
            for i in 0..4 { chk(*Matrix::as_ptr(&mm2).add(i) == (i + 1) as f64, "Matrix2::as_ptr")?; }
            for i in 0..9 { chk(*Matrix::as_ptr(&mm).add(i) == (i + 1) as f64, "Matrix3::as_ptr")?; }
            for i in 0..16 { chk(*Matrix::as_ptr(&mm4).add(i) == (i + 1) as f64, "Matrix4::as_ptr")?; }
            let mut w = mm4; *Matrix::as_mut_ptr(&mut w).add(6) = 99.0; chk(w[1][2] == 99.0, "Matrix4::as_mut_ptr")?;
            let mut wv = v4; *Array::as_mut_ptr(&mut wv).add(3) = 77; chk(wv.w == 77, "Vector4::as_mut_ptr")?;
        }
        chk(panics(|| v4.truncate_n(4)) && panics(|| v4.truncate_n(-1)), "truncate_n out of range panics")
    })().map_err(|m| format!("mint/conv/extend: {}", m)));
    r
}

fn ix(x: Xq) -> usize { match x.rat().n.to_i128() { Some(v) if v >= 0 && v < 1_000_000 => v as usize, _ => usize::MAX } }

pub fn cases(ctx: &mut Ctx) {
    for _ in 0..6 * ctx.scale {
        let g = ctx.generic(16);
        ctx.case("v1_into_array", "generic", &g[..1], &|| (), &|x| { let a: [Xq; 1] = v1(x).into(); a.to_vec() });
        ctx.case("v2_into_array", "generic", &g[..2], &|| (), &|x| { let a: [Xq; 2] = v2(x).into(); a.to_vec() });
        ctx.case("v3_into_array", "generic", &g[..3], &|| (), &|x| { let a: [Xq; 3] = v3(x).into(); a.to_vec() });
        ctx.case("v4_into_array", "generic", &g[..4], &|| (), &|x| { let a: [Xq; 4] = v4(x).into(); a.to_vec() });
        ctx.case("p3_into_array", "generic", &g[..3], &|| (), &|x| { let a: [Xq; 3] = p3(x).into(); a.to_vec() });
        ctx.case("quat_into_array", "generic", &g[..4], &|| (), &|x| { let a: [Xq; 4] = qn(x).into(); a.to_vec() });
        ctx.case("m2_flat", "generic", &g[..4], &|| (), &|x| { let m = m2(x); let a: &[Xq; 4] = m.as_ref(); a.to_vec() });
        ctx.case("m3_flat", "generic", &g[..9], &|| (), &|x| { let m = m3(x); let a: &[Xq; 9] = m.as_ref(); a.to_vec() });
        ctx.case("m4_flat", "generic", &g[..16], &|| (), &|x| { let m = m4(x); let a: &[Xq; 16] = m.as_ref(); a.to_vec() });
        ctx.case("v2_from_array", "generic", &g[..2], &|| (), &|x| Vector2::from([x[0], x[1]]));
        ctx.case("v3_from_array", "generic", &g[..3], &|| (), &|x| Vector3::from([x[0], x[1], x[2]]));
        ctx.case("v4_from_array", "generic", &g[..4], &|| (), &|x| Vector4::from((x[0], x[1], x[2], x[3])));
        ctx.case("p3_from_array", "generic", &g[..3], &|| (), &|x| Point3::from([x[0], x[1], x[2]]));
        ctx.case("quat_from_array", "generic", &g[..4], &|| (), &|x| Quaternion::from([x[0], x[1], x[2], x[3]]));
        ctx.case("m3_from_nested", "generic", &g[..9], &|| (), &|x| Matrix3::from([[x[0], x[1], x[2]], [x[3], x[4], x[5]], [x[6], x[7], x[8]]]));
        ctx.case("m4_from_nested", "generic", &g[..16], &|| (), &|x| Matrix4::from([[x[0], x[1], x[2], x[3]], [x[4], x[5], x[6], x[7]], [x[8], x[9], x[10], x[11]], [x[12], x[13], x[14], x[15]]]));
        ctx.case("v3_extend", "generic", &g[..4], &|| (), &|x| v3(x).extend(x[3]));
        ctx.case("v2_extend", "generic", &g[..3], &|| (), &|x| v2(x).extend(x[2]));
        ctx.case("v4_truncate", "generic", &g[..4], &|| (), &|x| v4(x).truncate());
        ctx.case("v3_truncate", "generic", &g[..3], &|| (), &|x| v3(x).truncate());
    }
    let g = ctx.generic(5);
    let big: i128 = 18446744073709551615;
    for i in [0i128, 1, 2, 3, 4, 5, big] {
        let mut inp = g[..4].to_vec(); inp.push(BigRat::int(i));
        ctx.case("v4_index", "index", &inp, &|| (), &|x| v4(x)[ix(x[4])]);
        ctx.case("quat_index", "index", &inp, &|| (), &|x| qn(x)[ix(x[4])]);
        ctx.case("v4_truncate_n", "index", &inp, &|| (), &|x| v4(x).truncate_n(ix(x[4]) as isize));
        let mut inp2 = inp.clone(); inp2.push(g[4].clone());
        ctx.case("v4_set", "index", &inp2, &|| (), &|x| { let mut v = v4(x); v[ix(x[4])] = x[5]; v });
        for j in [0i128, 1, 3, 4, 5, big] {
            let mut inp3 = inp.clone(); inp3.push(BigRat::int(j));
            ctx.case("v4_slice", "index", &inp3, &|| (), &|x| v4(x)[ix(x[4])..ix(x[5])].to_vec());
            ctx.case("v4_swap", "index", &inp3, &|| (), &|x| { let mut v = v4(x); v.swap_elements(ix(x[4]), ix(x[5])); v });
        }
    }
}

pub fn preds(ctx: &mut Ctx) {
    for res in all_views().into_iter().chain(points_quat_misc()) {
        ctx.pred_evals += 1;
        if let Err(m) = res {
            let name = m.split(':').next().unwrap_or("view").to_string();
            ctx.pred_fails.push(PredFail { pred: format!("views:{}", name), inp: vec![], detail: m });
        }
    }
    let mut fail = vec![];
    let n = crate::swz_calls::all_swizzles(&mut fail);
    ctx.pred_evals += n;
    for f in fail {
        ctx.pred_fails.push(PredFail { pred: format!("swizzle:{}", f), inp: vec![BigRat::int(11), BigRat::int(22), BigRat::int(33), BigRat::int(44)], detail: "accessor does not return the named components".into() });
    }
}
