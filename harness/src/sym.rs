//! Symbolic mode of the exact scalar `Xq`: the *real generic cgmath code* is executed with scalars that are
//! expression nodes instead of rationals.  Every arithmetic operation builds a node, every oracle call
//! (sqrt, sin, cos, acos, atan2, ...) an uninterpreted node, every comparison / `approx` relation is a
//! *decision* answered from a script; a driver re-executes the function once per script (depth-first over the
//! decisions, both outcomes of each), so that all paths through the generic code are enumerated.  Each path yields
//! (path conditions, output expressions | None | Panic | bool).  The orchestrator turns each path into a Coq lemma
//!     forall inputs, conditions -> <dispatcher of the model> "f" inputs = outputs
//! over an arbitrary field with arbitrary oracles: a translation of what the compiled code does into Gallina,
//! regenerated on every run, against which the hand-written model is re-proved (DESIGN.md section 11).
use crate::bigrat::BigRat;
use std::cell::{Cell, RefCell};
use std::collections::HashMap;

#[derive(Clone, PartialEq, Eq, Hash, Debug)]
pub enum Node {
    In(u32),
    Const(BigRat), // Zero::zero(), One::one() and constants built by the harness
    Cast(BigRat),  // NumCast::from(<primitive>): `cast(2)`, `cast(0.5f64)`, `cast(points.len())`
    Eps,    // approx::AbsDiffEq::default_epsilon / Float::epsilon
    MaxRel, // approx::RelativeEq::default_max_relative
    Un(&'static str, u32),
    Bin(&'static str, u32, u32),
}

#[derive(Clone, Debug)]
pub struct Cond {
    pub op: &'static str,
    pub args: Vec<u32>,
    pub ulps: u32,
    pub outcome: bool,
}

#[derive(Default)]
pub struct SymState {
    pub nodes: Vec<Node>,
    index: HashMap<Node, u32>,
    script: Vec<bool>,
    pub trace: Vec<bool>,
    pub conds: Vec<Cond>,
    /// the concrete inputs of the case that triggered the exploration, and the inputs whose concrete value the code
    /// asked for (index arguments, relation codes): those are constants of the generated lemmas
    concrete: Vec<BigRat>,
    pub concretized: std::collections::BTreeMap<u32, BigRat>,
}

thread_local! {
    static ON: Cell<bool> = Cell::new(false);
    static SS: RefCell<SymState> = RefCell::new(SymState::default());
}

pub const UNSUPPORTED: &str = "SYM-UNSUPPORTED";
pub const MAX_DEPTH: usize = 48;

#[inline]
pub fn on() -> bool {
    ON.with(|c| c.get())
}

pub fn begin(script: &[bool], concrete: &[BigRat]) {
    ON.with(|c| c.set(true));
    SS.with(|s| {
        let mut s = s.borrow_mut();
        *s = SymState::default();
        s.script = script.to_vec();
        s.concrete = concrete.to_vec();
    })
}

/// the concrete value of input i (the code needs it as a number: an index, a count, a selector)
pub fn concretize(i: u32) -> BigRat {
    SS.with(|s| {
        let mut s = s.borrow_mut();
        let v = match s.concrete.get(i as usize) {
            Some(v) => v.clone(),
            None => {
                drop(s);
                unsupported("concrete value of a symbolic scalar");
            }
        };
        s.concretized.insert(i, v.clone());
        v
    })
}

pub fn end() -> SymState {
    ON.with(|c| c.set(false));
    SS.with(|s| std::mem::take(&mut *s.borrow_mut()))
}

pub fn unsupported(what: &str) -> ! {
    panic!("{}: {}", UNSUPPORTED, what)
}

pub fn mk(n: Node) -> u32 {
    SS.with(|s| {
        let mut s = s.borrow_mut();
        if let Some(&i) = s.index.get(&n) {
            return i;
        }
        let i = s.nodes.len() as u32;
        s.nodes.push(n.clone());
        s.index.insert(n, i);
        i
    })
}

pub fn node(i: u32) -> Node {
    SS.with(|s| s.borrow().nodes[i as usize].clone())
}

pub fn konst(i: u32) -> Option<BigRat> {
    match node(i) {
        Node::Const(r) | Node::Cast(r) => Some(r),
        _ => None,
    }
}

/// a decision: the same question asked twice on one path gets the same answer
pub fn decide(op: &'static str, args: Vec<u32>, ulps: u32) -> bool {
    SS.with(|s| {
        let mut s = s.borrow_mut();
        if let Some(c) = s.conds.iter().find(|c| c.op == op && c.args == args && c.ulps == ulps) {
            return c.outcome;
        }
        let pos = s.trace.len();
        if pos >= MAX_DEPTH {
            drop(s);
            unsupported("more than MAX_DEPTH decisions on one path");
        }
        let outcome = if pos < s.script.len() { s.script[pos] } else { false };
        s.trace.push(outcome);
        s.conds.push(Cond { op, args, ulps, outcome });
        outcome
    })
}

/// comparison of two scalars: decided concretely when both are constants
pub fn cmp(op: &'static str, a: u32, b: u32) -> bool {
    // the same node on both sides: the two computations are literally the same expression (hash-consed DAG)
    if a == b {
        return op != "ltb";
    }
    if let (Some(x), Some(y)) = (konst(a), konst(b)) {
        return match op {
            "eqb" => x == y,
            "ltb" => x < y,
            "leb" => x <= y,
            _ => unreachable!(),
        };
    }
    decide(op, vec![a, b], 0)
}
