//! C07 — Euler angles (euler.rs, matrix.rs, quaternion.rs, rotation.rs).
use crate::bigrat::BigRat;
use crate::core::*;
use crate::xq::{self, Xq};
use cgmath::*;

fn chk(ok: bool, what: &str) -> Result<(), String> {
    if ok { Ok(()) } else { Err(what.to_string()) }
}

/// Euler triple of lattice angles (x, z in (-pi, pi), |y| < pi/2, all even multiples of the base value so that
/// half angles are exact); returns radians, degrees, base parameters
fn triple(ctx: &mut Ctx, near_gimbal: bool) -> (Vec<BigRat>, Vec<BigRat>, (i128, i128)) {
    let (tn, td) = if near_gimbal { (1, 16) } else { ctx.base_t() };
    xq::reset();
    let base = xq::set_base_t(tn, td);
    let kmax_pi = (std::f64::consts::PI / (2.0 * base.beta)).floor() as i64;        // 2k*beta < pi
    let kmax_h = (std::f64::consts::FRAC_PI_2 / (2.0 * base.beta)).floor() as i64; // 2k*beta < pi/2
    let pick = |ctx: &mut Ctx, m: i64| { let mut k = ctx.rng.range(-m, m); if k == 0 { k = 1; } k };
    let kx = pick(ctx, kmax_pi - 1);
    let kz = pick(ctx, kmax_pi - 1);
    let ky = if near_gimbal { if ctx.rng.coin() { kmax_h } else { -kmax_h } } else { pick(ctx, (kmax_h - 1).max(1)) };
    let rad: Vec<BigRat> = [kx, ky, kz].iter().map(|k| base.v.mul(&BigRat::int(2 * *k as i128))).collect();
    let c = BigRat::from_f64(std::f64::consts::PI / 180.0);
    let deg: Vec<BigRat> = rad.iter().map(|r| r.div(&c)).collect();
    (rad, deg, (tn, td))
}
fn eul(x: &[Xq]) -> Euler<Rad<Xq>> { Euler::new(Rad(x[0]), Rad(x[1]), Rad(x[2])) }
fn euld(x: &[Xq]) -> Euler<Deg<Xq>> { Euler::new(Deg(x[0]), Deg(x[1]), Deg(x[2])) }

/// unit quaternion (w, 0, y, 0) with y*w = u(1-u^2)*2/(1+u^2)^2: the decisive quantity of the gimbal test, tunable through u
fn yw_quat(u: &BigRat) -> Vec<BigRat> {
    let u2 = u.mul(u);
    let den = BigRat::one().add(&u2);
    vec![BigRat::one().sub(&u2).div(&den), BigRat::zero(), u.add(u).div(&den), BigRat::zero()]
}

pub fn cases(ctx: &mut Ctx) {
    for round in 0..40 * ctx.scale {
        let (rad, deg, (tn, td)) = triple(ctx, round % 5 == 4);
        let setup = move || { xq::set_base_t(tn, td); };
        let tag = if round % 5 == 4 { "nt:near-gimbal" } else { "nt:regular" };
        ctx.case("m3_of_euler", tag, &rad, &setup, &|x| Matrix3::from(eul(x)));
        ctx.case("m4_of_euler", tag, &rad, &setup, &|x| Matrix4::from(eul(x)));
        ctx.case("basis3_of_euler", tag, &rad, &setup, &|x| Basis3::from(eul(x)));
        ctx.case("quat_of_euler", tag, &rad, &setup, &|x| Quaternion::from(eul(x)));
        ctx.case("m3_of_euler_deg", tag, &deg, &setup, &|x| Matrix3::from(euld(x)));
        ctx.case("m4_of_euler_deg", tag, &deg, &setup, &|x| Matrix4::from(euld(x)));
        ctx.case("basis3_of_euler_deg", tag, &deg, &setup, &|x| Basis3::from(euld(x)));
        ctx.case("quat_of_euler_deg", tag, &deg, &setup, &|x| Quaternion::from(euld(x)));
        // extraction from the exact quaternion of that triple (all questions stay inside the lattice)
        xq::reset(); xq::set_base_t(tn, td);
        let q: Quaternion<Xq> = eul(&rad.iter().map(|r| Xq::new(r.clone())).collect::<Vec<_>>()).into();
        let mut fl = vec![]; q.flat(&mut fl);
        let qr = rats(&fl);
        ctx.case("euler_of_quat", tag, &qr, &setup, &|x| { let e: Euler<Rad<Xq>> = qn(x).into(); e });
        // arbitrary rational unit quaternions: inverse-trig answers fall back to the f64 value (recorded in the table)
        let g = ctx.unit4();
        ctx.case("euler_of_quat", "nt:generic-unit", &g, &|| xq::set_float_fallback(true), &|x| { let e: Euler<Rad<Xq>> = qn(x).into(); e });
    }
    // threshold sweep: y*w = cast(0.499) +- 2^-k, approached through rational approximations of the parameter u
    let ustar = { // solve 2u(1-u^2)/(1+u^2)^2 = 0.499 near u = 0.4 by bisection in f64
        let f = |u: f64| 2.0 * u * (1.0 - u * u) / ((1.0 + u * u) * (1.0 + u * u));
        let (mut lo, mut hi) = (0.3f64, 0.4142f64);
        for _ in 0..200 { let mid = 0.5 * (lo + hi); if f(mid) < 0.499 { lo = mid } else { hi = mid } }
        0.5 * (lo + hi)
    };
    for k in 3..=44 {
        for sgn in [-1i128, 1] {
            let scale = 1i128 << k;
            let n = (ustar * scale as f64).round() as i128 + sgn;
            for flip in [false, true] {
                let mut q = yw_quat(&BigRat::from_i(n, scale));
                if flip { q[2] = q[2].neg(); }
                ctx.case("euler_of_quat", "nt:threshold-sweep", &q, &|| xq::set_float_fallback(true), &|x| { let e: Euler<Rad<Xq>> = qn(x).into(); e });
            }
        }
    }
}

pub fn preds(ctx: &mut Ctx) {
    for round in 0..40 * ctx.scale {
        let (rad, deg, (tn, td)) = triple(ctx, round % 5 == 4);
        let setup = move || { xq::set_base_t(tn, td); };
        let inp: Vec<BigRat> = rad.iter().chain(deg.iter()).cloned().collect();
        ctx.pred("euler:intrinsic-xyz", &inp, &setup, &|x| {
            let (e, d) = (eul(x), euld(&x[3..]));
            let m3 = Matrix3::from_angle_x(e.x) * Matrix3::from_angle_y(e.y) * Matrix3::from_angle_z(e.z);
            chk(Matrix3::from(e) == m3, "Matrix3::from(Euler) = Rx*Ry*Rz")?;
            chk(Matrix4::from(e) == Matrix4::from_angle_x(e.x) * Matrix4::from_angle_y(e.y) * Matrix4::from_angle_z(e.z), "Matrix4::from(Euler) = Rx*Ry*Rz")?;
            let b: Basis3<Xq> = e.into();
            chk(*b.as_ref() == m3, "Basis3::from(Euler)")?;
            let qx: Quaternion<Xq> = Rotation3::from_angle_x(e.x); let qy: Quaternion<Xq> = Rotation3::from_angle_y(e.y); let qz: Quaternion<Xq> = Rotation3::from_angle_z(e.z);
            let q: Quaternion<Xq> = e.into();
            chk(q == qx * qy * qz, "Quaternion::from(Euler) = qx*qy*qz")?;
            chk(Matrix3::from(q) == m3, "quaternion and matrix from the same Euler agree")?;
            chk(Matrix3::from(d) == m3 && Quaternion::from(d) == q, "Deg and Rad agree")?;
            // extraction
            let back: Euler<Rad<Xq>> = q.into();
            let test = q.v.x * q.v.z + q.v.y * q.s;
            let sig = Xq::new(BigRat::from_f64(0.499));
            let pi = Xq::new(BigRat::from_f64(std::f64::consts::PI));
            let hp = Xq::new(BigRat::from_f64(std::f64::consts::FRAC_PI_2));
            if test <= sig && test >= -sig {
                chk(back.x.0 >= -pi && back.x.0 <= pi && back.z.0 >= -pi && back.z.0 <= pi && back.y.0 >= -hp && back.y.0 <= hp, "extracted angles in the documented ranges")?;
                chk(Matrix3::from(back) == m3, "extracted angles rebuild the rotation exactly")
            } else {
                chk(back.x.0 == Xq::q(0, 1) && (back.y.0 == hp || back.y.0 == -hp), "gimbal cone: x = 0, y = +-pi/2")
            }
        });
    }
    // gimbal cone: the rebuilt rotation matches q's to within 0.13 in every matrix element
    // (native f64 on sampled quaternions inside the cone: a test, not a proof)
    for _ in 0..300 * ctx.scale {
        let u = |ctx: &mut Ctx| ctx.rng.below(1 << 30) as f64 / (1u64 << 30) as f64;
        let (ax, az) = ((u(ctx) * 2.0 - 1.0) * 3.1, (u(ctx) * 2.0 - 1.0) * 3.1);
        let delta = u(ctx) * 0.0632;
        let ay = if ctx.rng.coin() { 1.0 } else { -1.0 } * (std::f64::consts::FRAC_PI_2 - delta);
        let qq: Quaternion<f64> = Euler::new(Rad(ax), Rad(ay), Rad(az)).into();
        let test = qq.v.x * qq.v.z + qq.v.y * qq.s;
        if test.abs() <= 0.499 { continue; }
        let inp: Vec<BigRat> = [qq.s, qq.v.x, qq.v.y, qq.v.z].iter().map(|f| BigRat::from_f64(*f)).collect();
        ctx.pred("euler:gimbal-0.13(f64)", &inp, &|| (), &|_| {
            let e: Euler<Rad<f64>> = qq.into();
            let (a, b): (Matrix3<f64>, Matrix3<f64>) = (e.into(), qq.into());
            for c in 0..3 { for r in 0..3 { if (a[c][r] - b[c][r]).abs() > 0.13 { return Err(format!("element ({},{}) differs by {}", c, r, (a[c][r] - b[c][r]).abs())); } } }
            chk(e.x.0 == 0.0 && (e.y.0.abs() - std::f64::consts::FRAC_PI_2).abs() < 1e-15, "x = 0, y = +-pi/2")
        });
    }
}
