//! C17 — every spelling of an operator computes the same value.
use crate::bigrat::BigRat;
use crate::core::*;
use crate::xq::{self, Xq};
use cgmath::*;

fn chk(ok: bool, what: &str) -> Result<(), String> {
    if ok { Ok(()) } else { Err(what.to_string()) }
}

// ---------------------------------------------------------------- A. register programs
#[derive(Clone)]
struct Env { s: Vec<Xq>, v: Vec<Vector3<Xq>>, p: Vec<Point3<Xq>>, m: Vec<Matrix3<Xq>>, q: Vec<Quaternion<Xq>> }
fn env_of(x: &[Xq]) -> Env {
    Env { s: x[0..3].to_vec(), v: (0..4).map(|i| v3(&x[3 + 3 * i..])).collect(), p: (0..3).map(|i| p3(&x[15 + 3 * i..])).collect(),
          m: (0..3).map(|i| m3(&x[24 + 9 * i..])).collect(), q: (0..3).map(|i| qn(&x[51 + 4 * i..])).collect() }
}
fn env_flat(e: &Env) -> Vec<Xq> {
    let mut o = e.s.clone();
    for v in &e.v { v.flat(&mut o); } for p in &e.p { p.flat(&mut o); } for m in &e.m { m.flat(&mut o); } for q in &e.q { q.flat(&mut o); }
    o
}
// forms: 0 by value, 1 &a op b, 2 a op &b, 3 &a op &b, 4 op=
macro_rules! bin { ($f:expr, $a:expr, $b:expr, $op:tt) => { match $f { 0 => $a $op $b, 1 => &$a $op $b, 2 => $a $op &$b, _ => &$a $op &$b } } }
macro_rules! bin_s { ($f:expr, $a:expr, $s:expr, $op:tt) => { match $f { 0 => $a $op $s, _ => &$a $op $s } } }
macro_rules! asg { ($a:expr, $b:expr, $op:tt) => {{ let mut t = $a; t $op $b; t }} }

fn step(e: &mut Env, i: &[i64; 8]) {
    let (k, o, f, d, a, b) = (i[0], i[1], i[2], i[3] as usize, i[4] as usize, i[5] as usize);
    let srcs: Vec<usize> = [i[4], i[5], i[6], i[7]].iter().take(o as usize).map(|x| *x as usize).collect();
    match k {
        0 => { let (x, y) = (e.v[a], e.v[b]); e.v[d] = match (o, f) { (0, 4) => asg!(x, y, +=), (0, _) => bin!(f, x, y, +), (_, 4) => asg!(x, y, -=), (_, _) => bin!(f, x, y, -) }; }
        1 => { let (x, s) = (e.v[a], e.s[b]); e.v[d] = match (o, f) { (0, 4) => asg!(x, s, *=), (0, _) => bin_s!(f, x, s, *), (1, 4) => asg!(x, s, /=), (1, _) => bin_s!(f, x, s, /), (_, 4) => asg!(x, s, %=), (_, _) => bin_s!(f, x, s, %) }; }
        3 => { let x = e.v[a]; e.v[d] = -x; }   // Neg for vectors exists by value only
        4 => { let (x, y) = (e.p[a], e.v[b]); e.p[d] = match (o, f) { (0, 4) => asg!(x, y, +=), (0, _) => bin!(f, x, y, +), (_, 4) => asg!(x, y, -=), (_, _) => bin!(f, x, y, -) }; }
        5 => { let (x, y) = (e.p[a], e.p[b]); e.v[d] = bin!(f, x, y, -); }
        6 => { let (x, s) = (e.p[a], e.s[b]); e.p[d] = match (o, f) { (0, 4) => asg!(x, s, *=), (0, _) => bin_s!(f, x, s, *), (1, 4) => asg!(x, s, /=), (1, _) => bin_s!(f, x, s, /), (_, 4) => asg!(x, s, %=), (_, _) => bin_s!(f, x, s, %) }; }
        7 => { let (x, y) = (e.m[a], e.m[b]); e.m[d] = match (o, f) { (0, 4) => asg!(x, y, +=), (0, _) => bin!(f, x, y, +), (_, 4) => asg!(x, y, -=), (_, _) => bin!(f, x, y, -) }; }
        8 => { let (x, y) = (e.m[a], e.m[b]); e.m[d] = bin!(f, x, y, *); }
        9 => { let (x, y) = (e.m[a], e.v[b]); e.v[d] = bin!(f, x, y, *); }
        10 => { let (x, s) = (e.m[a], e.s[b]); e.m[d] = match (o, f) { (0, 4) => asg!(x, s, *=), (0, _) => bin_s!(f, x, s, *), (1, 4) => asg!(x, s, /=), (1, _) => bin_s!(f, x, s, /), (_, 4) => asg!(x, s, %=), (_, _) => bin_s!(f, x, s, %) }; }
        11 => { let x = e.m[a]; e.m[d] = if f == 0 { -x } else { -&x }; }
        12 => { let (x, y) = (e.q[a], e.q[b]); e.q[d] = match (o, f) { (0, 4) => asg!(x, y, +=), (0, _) => bin!(f, x, y, +), (_, 4) => asg!(x, y, -=), (_, _) => bin!(f, x, y, -) }; }
        13 => { let (x, y) = (e.q[a], e.q[b]); e.q[d] = bin!(f, x, y, *); }
        14 => { let (x, y) = (e.q[a], e.v[b]); e.v[d] = bin!(f, x, y, *); }
        15 => { let (x, s) = (e.q[a], e.s[b]); e.q[d] = match (o, f) { (0, 4) => asg!(x, s, *=), (0, _) => bin_s!(f, x, s, *), (1, 4) => asg!(x, s, /=), (1, _) => bin_s!(f, x, s, /), (_, 4) => asg!(x, s, %=), (_, _) => bin_s!(f, x, s, %) }; }
        16 => { let x = e.q[a]; e.q[d] = if f == 0 { -x } else { -&x }; }
        17 => { let l: Vec<Vector3<Xq>> = srcs.iter().map(|&k| e.v[k]).collect(); e.v[d] = if f == 0 { l.into_iter().sum() } else { l.iter().sum() }; }
        18 => { let l: Vec<Quaternion<Xq>> = srcs.iter().map(|&k| e.q[k]).collect(); e.q[d] = if f == 0 { l.into_iter().sum() } else { l.iter().sum() }; }
        19 => { let l: Vec<Matrix3<Xq>> = srcs.iter().map(|&k| e.m[k]).collect(); e.m[d] = if f == 0 { l.into_iter().sum() } else { l.iter().sum() }; }
        20 => { let l: Vec<Matrix3<Xq>> = srcs.iter().map(|&k| e.m[k]).collect(); e.m[d] = if f == 0 { l.into_iter().product() } else { l.iter().product() }; }
        21 => { let l: Vec<Quaternion<Xq>> = srcs.iter().map(|&k| e.q[k]).collect(); e.q[d] = if f == 0 { l.into_iter().product() } else { l.iter().product() }; }
        _ => panic!("bad instruction"),
    }
}

/// a random instruction with a spelling that exists for that operator
fn gen_instr(ctx: &mut Ctx) -> [i64; 8] {
    let kinds = [0i64, 1, 3, 4, 5, 6, 7, 8, 9, 10, 11, 12, 13, 14, 15, 16, 17, 18, 19, 20, 21];
    let k = *ctx.rng.pick(&kinds);
    let r = |ctx: &mut Ctx, n: i64| ctx.rng.range(0, n - 1);
    let (nv, np, nm, nq, ns) = (4, 3, 3, 3, 3);
    let mut i = [k, 0, 0, 0, 0, 0, 0, 0];
    let forms4 = [0i64, 1, 2, 3];
    match k {
        0 => { i[1] = r(ctx, 2); i[2] = r(ctx, 5); i[4] = r(ctx, nv); i[5] = r(ctx, nv); i[3] = if i[2] == 4 { i[4] } else { r(ctx, nv) }; }
        1 => { i[1] = r(ctx, 3); i[2] = *ctx.rng.pick(&[0i64, 1, 4]); i[4] = r(ctx, nv); i[5] = r(ctx, ns); i[3] = if i[2] == 4 { i[4] } else { r(ctx, nv) }; }
        3 => { i[2] = 0; i[3] = r(ctx, nv); i[4] = r(ctx, nv); }
        4 => { i[1] = r(ctx, 2); i[2] = r(ctx, 5); i[4] = r(ctx, np); i[5] = r(ctx, nv); i[3] = if i[2] == 4 { i[4] } else { r(ctx, np) }; }
        5 => { i[2] = *ctx.rng.pick(&forms4); i[3] = r(ctx, nv); i[4] = r(ctx, np); i[5] = r(ctx, np); }
        6 => { i[1] = r(ctx, 3); i[2] = *ctx.rng.pick(&[0i64, 1, 4]); i[4] = r(ctx, np); i[5] = r(ctx, ns); i[3] = if i[2] == 4 { i[4] } else { r(ctx, np) }; }
        7 => { i[1] = r(ctx, 2); i[2] = r(ctx, 5); i[4] = r(ctx, nm); i[5] = r(ctx, nm); i[3] = if i[2] == 4 { i[4] } else { r(ctx, nm) }; }
        8 => { i[2] = *ctx.rng.pick(&forms4); i[3] = r(ctx, nm); i[4] = r(ctx, nm); i[5] = r(ctx, nm); }
        9 => { i[2] = *ctx.rng.pick(&forms4); i[3] = r(ctx, nv); i[4] = r(ctx, nm); i[5] = r(ctx, nv); }
        10 => { i[1] = r(ctx, 3); i[2] = *ctx.rng.pick(&[0i64, 1, 4]); i[4] = r(ctx, nm); i[5] = r(ctx, ns); i[3] = if i[2] == 4 { i[4] } else { r(ctx, nm) }; }
        11 => { i[2] = r(ctx, 2); i[3] = r(ctx, nm); i[4] = r(ctx, nm); }
        12 => { i[1] = r(ctx, 2); i[2] = r(ctx, 5); i[4] = r(ctx, nq); i[5] = r(ctx, nq); i[3] = if i[2] == 4 { i[4] } else { r(ctx, nq) }; }
        13 => { i[2] = *ctx.rng.pick(&forms4); i[3] = r(ctx, nq); i[4] = r(ctx, nq); i[5] = r(ctx, nq); }
        14 => { i[2] = *ctx.rng.pick(&forms4); i[3] = r(ctx, nv); i[4] = r(ctx, nq); i[5] = r(ctx, nv); }
        15 => { i[1] = r(ctx, 3); i[2] = *ctx.rng.pick(&[0i64, 1, 4]); i[4] = r(ctx, nq); i[5] = r(ctx, ns); i[3] = if i[2] == 4 { i[4] } else { r(ctx, nq) }; }
        16 => { i[2] = r(ctx, 2); i[3] = r(ctx, nq); i[4] = r(ctx, nq); }
        _ => { // sums / products over 0..=4 registers, by value or by reference
            let n = match k { 17 => nv, 19 | 20 => nm, _ => nq };
            i[1] = ctx.rng.range(0, 4); i[2] = r(ctx, 2); i[3] = r(ctx, n);
            for j in 4..8 { i[j] = r(ctx, n); }
        }
    }
    i
}

pub fn cases(ctx: &mut Ctx) {
    for _ in 0..200 * ctx.scale {
        let regs = ctx.generic(63);
        let len = ctx.rng.range(1, 10) as usize;
        let prog: Vec<[i64; 8]> = (0..len).map(|_| gen_instr(ctx)).collect();
        let mut inp = regs.clone();
        for ins in &prog { for x in ins { inp.push(BigRat::int(*x as i128)); } }
        let p2 = prog.clone();
        ctx.case("program", "nt:program", &inp, &|| (), &|x| { let mut e = env_of(x); for ins in &p2 { step(&mut e, ins); } env_flat(&e) });
        // the same program with every spelling replaced by the by-value one must give the same registers
        let p3_ = prog.clone();
        ctx.pred("program:forms-irrelevant", &inp, &|| (), &|x| {
            let mut e1 = env_of(x); let mut e2 = env_of(x);
            for ins in &p3_ {
                step(&mut e1, ins);
                let mut byval = *ins; if byval[0] < 17 { byval[2] = 0; } else { byval[2] = 0; }
                step(&mut e2, &byval);
            }
            chk(env_flat(&e1) == env_flat(&e2), "final registers differ between the chosen spellings and the by-value spelling")
        });
    }
}

// ---------------------------------------------------------------- B. the form table
macro_rules! same4 { ($a:expr, $b:expr, $op:tt, $what:expr) => {{
    let r = $a $op $b;
    chk(&$a $op $b == r && $a $op &$b == r && &$a $op &$b == r, $what)?; r }} }
macro_rules! same2 { ($a:expr, $s:expr, $op:tt, $what:expr) => {{ let r = $a $op $s; chk(&$a $op $s == r, $what)?; r }} }
macro_rules! same_asg { ($a:expr, $b:expr, $op:tt, $opa:tt, $what:expr) => {{ let mut t = $a; t $opa $b; chk(t == $a $op $b, $what)?; }} }

macro_rules! vec_forms { ($ctx:ident, $name:expr, $n:expr, $mk:expr, $S:ty, $gen:expr, $conv:expr, $fromx:expr) => {{
    for _ in 0..6 * $ctx.scale {
        let inp: Vec<BigRat> = $gen($ctx, 2 * $n + 1);
        let inp2 = inp.clone();
        $ctx.pred($name, &inp, &|| (), &|x| {
            // at the exact scalar the operands are the (possibly symbolic) inputs themselves; natively the converted values
            let vals2: Vec<$S> = $fromx(x, &inp2);
            let (a, b, s) = ($mk(&vals2[..$n]), $mk(&vals2[$n..2 * $n]), vals2[2 * $n]);
            same4!(a, b, +, "+ forms"); same4!(a, b, -, "- forms");
            same2!(a, s, *, "*s forms"); same2!(a, s, /, "/s forms"); same2!(a, s, %, "%s forms");
            same_asg!(a, b, +, +=, "+="); same_asg!(a, b, -, -=, "-="); same_asg!(a, s, *, *=, "*="); same_asg!(a, s, /, /=, "/="); same_asg!(a, s, %, %=, "%=");
            Ok(())
        });
    }
}}; }

fn gen_q(ctx: &mut Ctx, n: usize) -> Vec<BigRat> { ctx.generic(n) }
fn gen_int(ctx: &mut Ctx, n: usize) -> Vec<BigRat> { ctx.small_ints(n, 90).iter().map(|v| BigRat::int(*v as i128)).collect() }
fn gen_half(ctx: &mut Ctx, n: usize) -> Vec<BigRat> { ctx.small_ints(n, 90).iter().map(|v| BigRat::from_i(*v as i128, 2)).collect() }
fn to_xq(r: &BigRat) -> Xq { Xq::new(r.clone()) }
fn to_i32(r: &BigRat) -> i32 { r.n.to_i128().unwrap() as i32 }
fn to_f64(r: &BigRat) -> f64 { r.to_f64() }

pub fn preds(ctx: &mut Ctx) {
    // vectors and points, at the exact scalar, i32 and f64
    macro_rules! vp { ($S:ty, $gen:expr, $conv:expr, $sfx:expr, $fromx:expr) => {{
        vec_forms!(ctx, concat!("forms:Vector1:", $sfx), 1, |x: &[$S]| Vector1::new(x[0]), $S, $gen, $conv, $fromx);
        vec_forms!(ctx, concat!("forms:Vector2:", $sfx), 2, |x: &[$S]| Vector2::new(x[0], x[1]), $S, $gen, $conv, $fromx);
        vec_forms!(ctx, concat!("forms:Vector3:", $sfx), 3, |x: &[$S]| Vector3::new(x[0], x[1], x[2]), $S, $gen, $conv, $fromx);
        vec_forms!(ctx, concat!("forms:Vector4:", $sfx), 4, |x: &[$S]| Vector4::new(x[0], x[1], x[2], x[3]), $S, $gen, $conv, $fromx);
        for _ in 0..6 * ctx.scale {
            let inp: Vec<BigRat> = $gen(ctx, 7);
            let inp2 = inp.clone();
            ctx.pred(concat!("forms:Point:", $sfx), &inp, &|| (), &|x| {
                let vals: Vec<$S> = $fromx(x, &inp2);
                let s = vals[6];
                let (p, q, v) = (Point3::new(vals[0], vals[1], vals[2]), Point3::new(vals[3], vals[4], vals[5]), Vector3::new(vals[3], vals[4], vals[5]));
                same4!(p, v, +, "P3 + V"); same4!(p, v, -, "P3 - V"); same4!(p, q, -, "P3 - P3");
                same2!(p, s, *, "P3 * s"); same2!(p, s, /, "P3 / s"); same2!(p, s, %, "P3 % s");
                same_asg!(p, v, +, +=, "P3 += V"); same_asg!(p, v, -, -=, "P3 -= V"); same_asg!(p, s, *, *=, "P3 *= s"); same_asg!(p, s, /, /=, "P3 /= s"); same_asg!(p, s, %, %=, "P3 %= s");
                let (p, q, v) = (Point2::new(vals[0], vals[1]), Point2::new(vals[3], vals[4]), Vector2::new(vals[3], vals[4]));
                same4!(p, v, +, "P2 + V"); same4!(p, v, -, "P2 - V"); same4!(p, q, -, "P2 - P2");
                same2!(p, s, *, "P2 * s"); same2!(p, s, /, "P2 / s"); same2!(p, s, %, "P2 % s");
                same_asg!(p, v, +, +=, "P2 += V"); same_asg!(p, v, -, -=, "P2 -= V"); same_asg!(p, s, *, *=, "P2 *= s"); same_asg!(p, s, /, /=, "P2 /= s"); same_asg!(p, s, %, %=, "P2 %= s");
                let (p, q, v) = (Point1::new(vals[0]), Point1::new(vals[3]), Vector1::new(vals[3]));
                same4!(p, v, +, "P1 + V"); same4!(p, v, -, "P1 - V"); same4!(p, q, -, "P1 - P1");
                same2!(p, s, *, "P1 * s"); same2!(p, s, /, "P1 / s"); same2!(p, s, %, "P1 % s");
                same_asg!(p, v, +, +=, "P1 += V"); same_asg!(p, v, -, -=, "P1 -= V"); same_asg!(p, s, *, *=, "P1 *= s"); same_asg!(p, s, /, /=, "P1 /= s"); same_asg!(p, s, %, %=, "P1 %= s");
                Ok(())
            });
        }
    }}; }
    vp!(Xq, gen_q, to_xq, "Xq", |x: &[Xq], _i: &Vec<BigRat>| x.to_vec());
    vp!(i32, gen_int, to_i32, "i32", |_x: &[Xq], i: &Vec<BigRat>| i.iter().map(to_i32).collect::<Vec<i32>>());
    vp!(f64, gen_half, to_f64, "f64", |_x: &[Xq], i: &Vec<BigRat>| i.iter().map(to_f64).collect::<Vec<f64>>());
    // negation (by value / by reference)
    for _ in 0..6 * ctx.scale {
        let g = ctx.generic(40);
        ctx.pred("forms:neg", &g, &|| (), &|x| {
            let (b2, b3, b4, q) = (m2(x), m3(x), m4(x), qn(x));
            chk(-b2 == -&b2 && -b3 == -&b3 && -b4 == -&b4 && -q == -&q, "Matrix/Quaternion neg")?;
            chk(-Rad(x[0]) == -&Rad(x[0]) && -Deg(x[0]) == -&Deg(x[0]), "angle neg")
        });
        // matrices, quaternions, angles, bases at the exact scalar
        ctx.pred("forms:Matrix", &g, &|| (), &|x| {
            let s = x[36];
            { let (a, b, v) = (m2(x), m2(&x[4..]), v2(&x[8..])); same4!(a, b, +, "M2 +"); same4!(a, b, -, "M2 -"); same4!(a, b, *, "M2 * M2"); same4!(a, v, *, "M2 * V");
              same2!(a, s, *, "M2 * s"); same2!(a, s, /, "M2 / s"); same2!(a, s, %, "M2 % s");
              same_asg!(a, b, +, +=, "M2 +="); same_asg!(a, b, -, -=, "M2 -="); same_asg!(a, s, *, *=, "M2 *="); same_asg!(a, s, /, /=, "M2 /="); same_asg!(a, s, %, %=, "M2 %="); }
            { let (a, b, v) = (m3(x), m3(&x[9..]), v3(&x[18..])); same4!(a, b, +, "M3 +"); same4!(a, b, -, "M3 -"); same4!(a, b, *, "M3 * M3"); same4!(a, v, *, "M3 * V");
              same2!(a, s, *, "M3 * s"); same2!(a, s, /, "M3 / s"); same2!(a, s, %, "M3 % s");
              same_asg!(a, b, +, +=, "M3 +="); same_asg!(a, b, -, -=, "M3 -="); same_asg!(a, s, *, *=, "M3 *="); same_asg!(a, s, /, /=, "M3 /="); same_asg!(a, s, %, %=, "M3 %="); }
            { let (a, b, v) = (m4(x), m4(&x[16..]), v4(&x[32..])); same4!(a, b, +, "M4 +"); same4!(a, b, -, "M4 -"); same4!(a, b, *, "M4 * M4"); same4!(a, v, *, "M4 * V");
              same2!(a, s, *, "M4 * s"); same2!(a, s, /, "M4 / s"); same2!(a, s, %, "M4 % s");
              same_asg!(a, b, +, +=, "M4 +="); same_asg!(a, b, -, -=, "M4 -="); same_asg!(a, s, *, *=, "M4 *="); same_asg!(a, s, /, /=, "M4 /="); same_asg!(a, s, %, %=, "M4 %="); }
            Ok(())
        });
        ctx.pred("forms:Quaternion-Angle-Basis", &g, &|| (), &|x| {
            let s = x[36];
            { let (a, b, v) = (qn(x), qn(&x[4..]), v3(&x[8..])); same4!(a, b, +, "Q +"); same4!(a, b, -, "Q -"); same4!(a, b, *, "Q * Q"); same4!(a, v, *, "Q * V");
              same2!(a, s, *, "Q * s"); same2!(a, s, /, "Q / s"); same2!(a, s, %, "Q % s");
              same_asg!(a, b, +, +=, "Q +="); same_asg!(a, b, -, -=, "Q -="); same_asg!(a, s, *, *=, "Q *="); same_asg!(a, s, /, /=, "Q /="); same_asg!(a, s, %, %=, "Q %="); }
            { let (a, b) = (Rad(x[0]), Rad(x[1])); same4!(a, b, +, "Rad +"); same4!(a, b, -, "Rad -"); same4!(a, b, /, "Rad / Rad"); same4!(a, b, %, "Rad % Rad");
              same2!(a, s, *, "Rad * s"); same2!(a, s, /, "Rad / s");
              same_asg!(a, b, +, +=, "Rad +="); same_asg!(a, b, -, -=, "Rad -="); same_asg!(a, b, %, %=, "Rad %="); same_asg!(a, s, *, *=, "Rad *="); same_asg!(a, s, /, /=, "Rad /="); }
            { let (a, b) = (Deg(x[0]), Deg(x[1])); same4!(a, b, +, "Deg +"); same4!(a, b, -, "Deg -"); same4!(a, b, /, "Deg / Deg"); same4!(a, b, %, "Deg % Deg");
              same2!(a, s, *, "Deg * s"); same2!(a, s, /, "Deg / s");
              same_asg!(a, b, +, +=, "Deg +="); same_asg!(a, b, -, -=, "Deg -="); same_asg!(a, b, %, %=, "Deg %="); same_asg!(a, s, *, *=, "Deg *="); same_asg!(a, s, /, /=, "Deg /="); }
            { let (a, b) = (Basis3::from_quaternion(&qn(x)), Basis3::from_quaternion(&qn(&x[4..]))); same4!(a, b, *, "Basis3 *"); }
            Ok(())
        });
        // Sum / Product over iterators of values and of references = left fold from zero() / one()
        ctx.pred("sum-product", &g, &|| (), &|x: &[Xq]| {
            let vs: Vec<Vector3<Xq>> = (0..4).map(|i| v3(&x[3 * i..])).collect();
            let fold = vs.iter().fold(Vector3::zero(), |a, b| a + *b);
            chk(vs.iter().sum::<Vector3<Xq>>() == fold && vs.clone().into_iter().sum::<Vector3<Xq>>() == fold, "Vector3 Sum")?;
            let v4s: Vec<Vector4<Xq>> = (0..3).map(|i| v4(&x[4 * i..])).collect();
            let fold = v4s.iter().fold(Vector4::zero(), |a, b| a + *b);
            chk(v4s.iter().sum::<Vector4<Xq>>() == fold && v4s.clone().into_iter().sum::<Vector4<Xq>>() == fold, "Vector4 Sum")?;
            let ms: Vec<Matrix3<Xq>> = (0..3).map(|i| m3(&x[9 * i..])).collect();
            let (fs, fp) = (ms.iter().fold(Matrix3::zero(), |a, b| a + *b), ms.iter().fold(Matrix3::identity(), |a, b| a * *b));
            chk(ms.iter().sum::<Matrix3<Xq>>() == fs && ms.clone().into_iter().sum::<Matrix3<Xq>>() == fs, "Matrix3 Sum")?;
            chk(ms.iter().product::<Matrix3<Xq>>() == fp && ms.clone().into_iter().product::<Matrix3<Xq>>() == fp, "Matrix3 Product")?;
            let m4s: Vec<Matrix4<Xq>> = (0..2).map(|i| m4(&x[16 * i..])).collect();
            let (fs, fp) = (m4s.iter().fold(Matrix4::zero(), |a, b| a + *b), m4s.iter().fold(Matrix4::identity(), |a, b| a * *b));
            chk(m4s.iter().sum::<Matrix4<Xq>>() == fs && m4s.clone().into_iter().sum::<Matrix4<Xq>>() == fs, "Matrix4 Sum")?;
            chk(m4s.iter().product::<Matrix4<Xq>>() == fp && m4s.clone().into_iter().product::<Matrix4<Xq>>() == fp, "Matrix4 Product")?;
            let m2s: Vec<Matrix2<Xq>> = (0..4).map(|i| m2(&x[4 * i..])).collect();
            let (fs, fp) = (m2s.iter().fold(Matrix2::zero(), |a, b| a + *b), m2s.iter().fold(Matrix2::identity(), |a, b| a * *b));
            chk(m2s.iter().sum::<Matrix2<Xq>>() == fs && m2s.iter().product::<Matrix2<Xq>>() == fp && m2s.clone().into_iter().product::<Matrix2<Xq>>() == fp, "Matrix2 Sum/Product")?;
            let qs: Vec<Quaternion<Xq>> = (0..4).map(|i| qn(&x[4 * i..])).collect();
            let (fs, fp) = (qs.iter().fold(Quaternion::zero(), |a, b| a + *b), qs.iter().fold(Quaternion::one(), |a, b| a * *b));
            chk(qs.iter().sum::<Quaternion<Xq>>() == fs && qs.clone().into_iter().sum::<Quaternion<Xq>>() == fs, "Quaternion Sum")?;
            chk(qs.iter().product::<Quaternion<Xq>>() == fp && qs.clone().into_iter().product::<Quaternion<Xq>>() == fp, "Quaternion Product")?;
            let rs: Vec<Rad<Xq>> = (0..5).map(|i| Rad(x[i])).collect();
            let ds: Vec<Deg<Xq>> = (0..5).map(|i| Deg(x[i])).collect();
            chk(rs.iter().sum::<Rad<Xq>>() == rs.iter().fold(Rad::zero(), |a, b| a + *b) && rs.clone().into_iter().sum::<Rad<Xq>>() == rs.iter().fold(Rad::zero(), |a, b| a + *b), "Rad Sum")?;
            chk(ds.iter().sum::<Deg<Xq>>() == ds.iter().fold(Deg::zero(), |a, b| a + *b) && ds.clone().into_iter().sum::<Deg<Xq>>() == ds.iter().fold(Deg::zero(), |a, b| a + *b), "Deg Sum")?;
            let bs: Vec<Basis3<Xq>> = (0..3).map(|i| Basis3::from_quaternion(&qn(&x[4 * i..]))).collect();
            let fp = bs.iter().fold(Basis3::one(), |a, b| a * *b);
            chk(bs.iter().product::<Basis3<Xq>>() == fp && bs.clone().into_iter().product::<Basis3<Xq>>() == fp, "Basis3 Product")
        });
    }
    scalar_left(ctx);
}

// ---------------------------------------------------------------- C. scalar on the left, all twelve primitive types
macro_rules! sl_type { ($ctx:ident, $S:ty, $sn:expr, $float:expr) => {{
    let name = concat!("scalar-left:", $sn);
    $ctx.pred(name, &[], &|| (), &|_| {
        let s: $S = 3 as $S;
        let c: [$S; 16] = [2 as $S, 3 as $S, 5 as $S, 11 as $S, 13 as $S, 4 as $S, 6 as $S, 9 as $S, 10 as $S, 12 as $S, 14 as $S, 15 as $S, 8 as $S, 1 as $S, 17 as $S, 19 as $S];
        macro_rules! comp { ($val:expr, $n:expr, $get:expr) => {{
            let v = $val;
            let (m, d, r) = (s * v, s / v, s % v);
            let (mr, dr, rr) = (s * &v, s / &v, s % &v);
            chk(m == mr && d == dr && r == rr, "scalar op value = scalar op &value")?;
            for k in 0..$n {
                let g: &dyn Fn(&_, usize) -> $S = &$get;
                chk(g(&m, k) == s * g(&v, k), "s * value component-wise")?;
                chk(g(&d, k) == s / g(&v, k), "s / value component-wise")?;
                chk(g(&r, k) == s % g(&v, k), "s % value component-wise")?;
            }
        }}; }
        comp!(Vector1::new(c[0]), 1, |v: &Vector1<$S>, k| v[k]);
        comp!(Vector2::new(c[0], c[1]), 2, |v: &Vector2<$S>, k| v[k]);
        comp!(Vector3::new(c[0], c[1], c[2]), 3, |v: &Vector3<$S>, k| v[k]);
        comp!(Vector4::new(c[0], c[1], c[2], c[3]), 4, |v: &Vector4<$S>, k| v[k]);
        comp!(Point1::new(c[0]), 1, |v: &Point1<$S>, k| v[k]);
        comp!(Point2::new(c[0], c[1]), 2, |v: &Point2<$S>, k| v[k]);
        comp!(Point3::new(c[0], c[1], c[2]), 3, |v: &Point3<$S>, k| v[k]);
        comp!(Matrix2::new(c[0], c[1], c[2], c[3]), 4, |m: &Matrix2<$S>, k| { let cols = [m.x, m.y]; let col = cols[k / 2]; [col.x, col.y][k % 2] });
        comp!(Matrix3::new(c[0], c[1], c[2], c[3], c[4], c[5], c[6], c[7], c[8]), 9, |m: &Matrix3<$S>, k| { let cols = [m.x, m.y, m.z]; let col = cols[k / 3]; [col.x, col.y, col.z][k % 3] });
        comp!(Matrix4::new(c[0], c[1], c[2], c[3], c[4], c[5], c[6], c[7], c[8], c[9], c[10], c[11], c[12], c[13], c[14], c[15]), 16,
              |m: &Matrix4<$S>, k| { let cols = [m.x, m.y, m.z, m.w]; let col = cols[k / 4]; [col.x, col.y, col.z, col.w][k % 4] });
        Ok(())
    });
}}; }

fn scalar_left(ctx: &mut Ctx) {
    sl_type!(ctx, u8, "u8", false); sl_type!(ctx, u16, "u16", false); sl_type!(ctx, u32, "u32", false); sl_type!(ctx, u64, "u64", false);
    sl_type!(ctx, usize, "usize", false); sl_type!(ctx, i8, "i8", false); sl_type!(ctx, i16, "i16", false); sl_type!(ctx, i32, "i32", false);
    sl_type!(ctx, i64, "i64", false); sl_type!(ctx, isize, "isize", false); sl_type!(ctx, f32, "f32", true); sl_type!(ctx, f64, "f64", true);
    // Quaternion: f32 and f64 only, * and /
    ctx.pred("scalar-left:Quaternion", &[], &|| (), &|_| {
        let _ = xq::half_pi;
        let q = Quaternion::new(2.0f64, 3.0, 5.0, 11.0);
        let (m, d) = (7.0f64 * q, 7.0f64 / q);
        chk(m == 7.0f64 * &q && d == 7.0f64 / &q, "f64 op &Quaternion")?;
        chk(m == Quaternion::new(14.0, 21.0, 35.0, 77.0) && d == Quaternion::new(7.0 / 2.0, 7.0 / 3.0, 7.0 / 5.0, 7.0 / 11.0), "f64 * / Quaternion component-wise")?;
        let q = Quaternion::new(2.0f32, 3.0, 5.0, 11.0);
        let (m, d) = (7.0f32 * q, 7.0f32 / q);
        chk(m == 7.0f32 * &q && d == 7.0f32 / &q, "f32 op &Quaternion")?;
        chk(m == Quaternion::new(14.0, 21.0, 35.0, 77.0) && d == Quaternion::new(7.0 / 2.0, 7.0 / 3.0, 7.0 / 5.0, 7.0 / 11.0), "f32 * / Quaternion component-wise")
    });
}
