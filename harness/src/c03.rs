//! C03 — vectors as an inner-product space (src/vector.rs).
use crate::bigrat::BigRat;
use crate::core::*;
use crate::xq::Xq;
use cgmath::*;

macro_rules! dim_cases {
    ($ctx:ident, $n:expr, $V:ident, $mk:ident, $pfx:expr) => {{
        let n: usize = $n;
        let reps = 24 * $ctx.scale;
        for _ in 0..reps {
            let i = $ctx.generic(2 * n + 1);
            let nm = |s: &str| format!("{}_{}", $pfx, s);
            let two = &i[..2 * n];
            let vs = &i[..n + 1];
            let vs = { let mut t = vs.to_vec(); t[n] = i[2 * n].clone(); t };
            let one = &i[..n];
            $ctx.case(&nm("add"), "generic", two, &|| (), &|x| $mk(&x[..n]) + $mk(&x[n..]));
            $ctx.case(&nm("sub"), "generic", two, &|| (), &|x| $mk(&x[..n]) - $mk(&x[n..]));
            $ctx.case(&nm("neg"), "generic", one, &|| (), &|x| -$mk(x));
            $ctx.case(&nm("mul_s"), "generic", &vs, &|| (), &|x| $mk(&x[..n]) * x[n]);
            $ctx.case(&nm("div_s"), "generic", &vs, &|| (), &|x| $mk(&x[..n]) / x[n]);
            $ctx.case(&nm("rem_s"), "generic", &vs, &|| (), &|x| $mk(&x[..n]) % x[n]);
            $ctx.case(&nm("add_ew"), "generic", two, &|| (), &|x| $mk(&x[..n]).add_element_wise($mk(&x[n..])));
            $ctx.case(&nm("sub_ew"), "generic", two, &|| (), &|x| $mk(&x[..n]).sub_element_wise($mk(&x[n..])));
            $ctx.case(&nm("mul_ew"), "generic", two, &|| (), &|x| $mk(&x[..n]).mul_element_wise($mk(&x[n..])));
            $ctx.case(&nm("div_ew"), "generic", two, &|| (), &|x| $mk(&x[..n]).div_element_wise($mk(&x[n..])));
            $ctx.case(&nm("rem_ew"), "generic", two, &|| (), &|x| $mk(&x[..n]).rem_element_wise($mk(&x[n..])));
            $ctx.case(&nm("add_ews"), "generic", &vs, &|| (), &|x| $mk(&x[..n]).add_element_wise(x[n]));
            $ctx.case(&nm("sub_ews"), "generic", &vs, &|| (), &|x| $mk(&x[..n]).sub_element_wise(x[n]));
            $ctx.case(&nm("mul_ews"), "generic", &vs, &|| (), &|x| $mk(&x[..n]).mul_element_wise(x[n]));
            $ctx.case(&nm("div_ews"), "generic", &vs, &|| (), &|x| $mk(&x[..n]).div_element_wise(x[n]));
            $ctx.case(&nm("rem_ews"), "generic", &vs, &|| (), &|x| $mk(&x[..n]).rem_element_wise(x[n]));
            $ctx.case(&nm("add_assign"), "generic", two, &|| (), &|x| { let mut a = $mk(&x[..n]); a += $mk(&x[n..]); a });
            $ctx.case(&nm("sub_assign"), "generic", two, &|| (), &|x| { let mut a = $mk(&x[..n]); a -= $mk(&x[n..]); a });
            $ctx.case(&nm("mul_assign"), "generic", &vs, &|| (), &|x| { let mut a = $mk(&x[..n]); a *= x[n]; a });
            $ctx.case(&nm("div_assign"), "generic", &vs, &|| (), &|x| { let mut a = $mk(&x[..n]); a /= x[n]; a });
            $ctx.case(&nm("rem_assign"), "generic", &vs, &|| (), &|x| { let mut a = $mk(&x[..n]); a %= x[n]; a });
            $ctx.case(&nm("add_assign_ew"), "generic", two, &|| (), &|x| { let mut a = $mk(&x[..n]); a.add_assign_element_wise($mk(&x[n..])); a });
            $ctx.case(&nm("sub_assign_ew"), "generic", two, &|| (), &|x| { let mut a = $mk(&x[..n]); a.sub_assign_element_wise($mk(&x[n..])); a });
            $ctx.case(&nm("mul_assign_ew"), "generic", two, &|| (), &|x| { let mut a = $mk(&x[..n]); a.mul_assign_element_wise($mk(&x[n..])); a });
            $ctx.case(&nm("div_assign_ew"), "generic", two, &|| (), &|x| { let mut a = $mk(&x[..n]); a.div_assign_element_wise($mk(&x[n..])); a });
            $ctx.case(&nm("rem_assign_ew"), "generic", two, &|| (), &|x| { let mut a = $mk(&x[..n]); a.rem_assign_element_wise($mk(&x[n..])); a });
            $ctx.case(&nm("add_assign_ews"), "generic", &vs, &|| (), &|x| { let mut a = $mk(&x[..n]); a.add_assign_element_wise(x[n]); a });
            $ctx.case(&nm("sub_assign_ews"), "generic", &vs, &|| (), &|x| { let mut a = $mk(&x[..n]); a.sub_assign_element_wise(x[n]); a });
            $ctx.case(&nm("mul_assign_ews"), "generic", &vs, &|| (), &|x| { let mut a = $mk(&x[..n]); a.mul_assign_element_wise(x[n]); a });
            $ctx.case(&nm("div_assign_ews"), "generic", &vs, &|| (), &|x| { let mut a = $mk(&x[..n]); a.div_assign_element_wise(x[n]); a });
            $ctx.case(&nm("rem_assign_ews"), "generic", &vs, &|| (), &|x| { let mut a = $mk(&x[..n]); a.rem_assign_element_wise(x[n]); a });
            $ctx.case(&nm("sum"), "generic", one, &|| (), &|x| $mk(x).sum());
            $ctx.case(&nm("product"), "generic", one, &|| (), &|x| $mk(x).product());
            $ctx.case(&nm("from_value"), "generic", &i[..1], &|| (), &|x| $V::from_value(x[0]));
            $ctx.case(&nm("dot"), "generic", two, &|| (), &|x| $mk(&x[..n]).dot($mk(&x[n..])));
            $ctx.case(&nm("magnitude2"), "generic", one, &|| (), &|x| $mk(x).magnitude2());
        }
        let nm = |s: &str| format!("{}_{}", $pfx, s);
        $ctx.case(&nm("zero"), "const", &[], &|| (), &|_| $V::<Xq>::zero());
        $ctx.case(&nm("unit_x"), "const", &[], &|| (), &|_| $V::<Xq>::unit_x());
    }};
}

// native integer runs: the same generic code at i32 / i64 / u8, against the Z instance of the model
macro_rules! int_cases {
    ($ctx:ident, $T:ty, $bound:expr, $unsigned:expr) => {{
        let reps = 6 * $ctx.scale;
        for _ in 0..reps {
            let raw = $ctx.small_ints(9, $bound);
            let iv: Vec<i64> = raw.iter().map(|v| if $unsigned { v.abs() } else { *v }).collect();
            let t = |k: usize| iv[k] as $T;
            let q = |ks: &[usize]| -> Vec<BigRat> { ks.iter().map(|&k| BigRat::int(iv[k] as i128)).collect() };
            let o = |l: Vec<$T>| Out::Q(l.iter().map(|&v| BigRat::int(v as i128)).collect());
            let tag = stringify!($T);
            // Vector4: add, mul_s, div_s, rem_s, dot, sum, product (product kept small)
            let a4 = Vector4::new(t(0), t(1), t(2), t(3));
            let b4 = Vector4::new(t(4), t(5), t(6), t(7));
            let s = t(8);
            if !$unsigned {
                $ctx.cases.push(Case { f: "z:v4_sub".into(), inp: q(&[0,1,2,3,4,5,6,7]), orc: Default::default(), out: { let r = a4 - b4; o(vec![r.x, r.y, r.z, r.w]) }, tag: tag.into() });
                $ctx.cases.push(Case { f: "z:v3_cross".into(), inp: q(&[0,1,2,4,5,6]), orc: Default::default(), out: { let r = Vector3::new(t(0),t(1),t(2)).cross(Vector3::new(t(4),t(5),t(6))); o(vec![r.x, r.y, r.z]) }, tag: tag.into() });
                $ctx.cases.push(Case { f: "z:v2_perp_dot".into(), inp: q(&[0,1,4,5]), orc: Default::default(), out: o(vec![Vector2::new(t(0),t(1)).perp_dot(Vector2::new(t(4),t(5)))]), tag: tag.into() });
            }
            $ctx.cases.push(Case { f: "z:v4_add".into(), inp: q(&[0,1,2,3,4,5,6,7]), orc: Default::default(), out: { let r = a4 + b4; o(vec![r.x, r.y, r.z, r.w]) }, tag: tag.into() });
            $ctx.cases.push(Case { f: "z:v4_div_s".into(), inp: q(&[0,1,2,3,8]), orc: Default::default(), out: { let r = a4 / s; o(vec![r.x, r.y, r.z, r.w]) }, tag: tag.into() });
            $ctx.cases.push(Case { f: "z:v4_rem_s".into(), inp: q(&[0,1,2,3,8]), orc: Default::default(), out: { let r = a4 % s; o(vec![r.x, r.y, r.z, r.w]) }, tag: tag.into() });
            $ctx.cases.push(Case { f: "z:v3_dot".into(), inp: q(&[0,1,2,4,5,6]), orc: Default::default(), out: o(vec![Vector3::new(t(0),t(1),t(2)).dot(Vector3::new(t(4),t(5),t(6)))]), tag: tag.into() });
            $ctx.cases.push(Case { f: "z:v4_sum".into(), inp: q(&[0,1,2,3]), orc: Default::default(), out: o(vec![a4.sum()]), tag: tag.into() });
            $ctx.cases.push(Case { f: "z:v3_mul_ew".into(), inp: q(&[0,1,2,4,5,6]), orc: Default::default(), out: { let r = Vector3::new(t(0),t(1),t(2)).mul_element_wise(Vector3::new(t(4),t(5),t(6))); o(vec![r.x, r.y, r.z]) }, tag: tag.into() });
            $ctx.cases.push(Case { f: "z:v4_div_assign".into(), inp: q(&[0,1,2,3,8]), orc: Default::default(), out: { let mut r = a4; r /= s; o(vec![r.x, r.y, r.z, r.w]) }, tag: tag.into() });
            $ctx.cases.push(Case { f: "z:v4_rem_assign".into(), inp: q(&[0,1,2,3,8]), orc: Default::default(), out: { let mut r = a4; r %= s; o(vec![r.x, r.y, r.z, r.w]) }, tag: tag.into() });
            $ctx.cases.push(Case { f: "z:v4_mul_assign".into(), inp: q(&[0,1,2,3,8]), orc: Default::default(), out: { let mut r = Vector4::new(t(0), t(1), t(2), t(3)); r *= s; o(vec![r.x, r.y, r.z, r.w]) }, tag: tag.into() });
            $ctx.cases.push(Case { f: "z:v4_add_assign".into(), inp: q(&[0,1,2,3,4,5,6,7]), orc: Default::default(), out: { let mut r = a4; r += b4; o(vec![r.x, r.y, r.z, r.w]) }, tag: tag.into() });
            $ctx.cases.push(Case { f: "z:v3_div_assign".into(), inp: q(&[0,1,2,8]), orc: Default::default(), out: { let mut r = Vector3::new(t(0), t(1), t(2)); r /= s; o(vec![r.x, r.y, r.z]) }, tag: tag.into() });
            $ctx.cases.push(Case { f: "z:v2_div_assign".into(), inp: q(&[0,1,8]), orc: Default::default(), out: { let mut r = Vector2::new(t(0), t(1)); r /= s; o(vec![r.x, r.y]) }, tag: tag.into() });
            $ctx.cases.push(Case { f: "z:v1_div_assign".into(), inp: q(&[0,8]), orc: Default::default(), out: { let mut r = Vector1::new(t(0)); r /= s; o(vec![r.x]) }, tag: tag.into() });
            $ctx.cases.push(Case { f: "z:v3_div_assign_ews".into(), inp: q(&[0,1,2,8]), orc: Default::default(), out: { let mut r = Vector3::new(t(0), t(1), t(2)); r.div_assign_element_wise(s); o(vec![r.x, r.y, r.z]) }, tag: tag.into() });
            $ctx.cases.push(Case { f: "z:v3_div_assign_ew".into(), inp: q(&[4,5,6,0,1,2]), orc: Default::default(), out: { let mut r = Vector3::new(t(4), t(5), t(6)); r.div_assign_element_wise(Vector3::new(t(0), t(1), t(2))); o(vec![r.x, r.y, r.z]) }, tag: tag.into() });
            $ctx.cases.push(Case { f: "z:v2_mul_s".into(), inp: q(&[0,1,8]), orc: Default::default(), out: { let r = Vector2::new(t(0),t(1)) * s; o(vec![r.x, r.y]) }, tag: tag.into() });
        }
    }};
}

/// native floats on inputs for which every operation is exact (small integers, quotients exact),
/// so that the Z instance of the model gives *the* expected result
macro_rules! float_exact_cases {
    ($ctx:ident, $T:ty) => {{
        for _ in 0..8 * $ctx.scale {
            let m = $ctx.small_ints(4, 60);
            let d = $ctx.rng.range(3, 60) * if $ctx.rng.coin() { 1 } else { -1 };   // not a power of two in general
            let num: Vec<i64> = m.iter().map(|k| k * d).collect();
            let t = |k: usize| num[k] as $T;
            let s = d as $T;
            let mut qi: Vec<BigRat> = num.iter().map(|&v| BigRat::int(v as i128)).collect();
            qi.push(BigRat::int(d as i128));
            let o = |l: Vec<$T>| Out::Q(l.iter().map(|&v| BigRat::from_f64(v as f64)).collect());
            let tag = stringify!($T);
            let a4 = Vector4::new(t(0), t(1), t(2), t(3));
            let mk = |f: &str, inp: Vec<BigRat>, out: Out| Case { f: format!("z:{}", f), inp, orc: Default::default(), out, tag: tag.into() };
            $ctx.cases.push(mk("v4_div_s", qi.clone(), { let r = a4 / s; o(vec![r.x, r.y, r.z, r.w]) }));
            $ctx.cases.push(mk("v4_div_assign", qi.clone(), { let mut r = a4; r /= s; o(vec![r.x, r.y, r.z, r.w]) }));
            $ctx.cases.push(mk("v4_div_ews", qi.clone(), { let r = a4.div_element_wise(s); o(vec![r.x, r.y, r.z, r.w]) }));
            $ctx.cases.push(mk("v4_div_assign_ews", qi.clone(), { let mut r = a4; r.div_assign_element_wise(s); o(vec![r.x, r.y, r.z, r.w]) }));
            $ctx.cases.push(mk("v4_mul_s", qi.clone(), { let r = a4 * s; o(vec![r.x, r.y, r.z, r.w]) }));
            $ctx.cases.push(mk("v4_mul_assign", qi.clone(), { let mut r = a4; r *= s; o(vec![r.x, r.y, r.z, r.w]) }));
            let q3: Vec<BigRat> = vec![qi[0].clone(), qi[1].clone(), qi[2].clone(), qi[4].clone()];
            $ctx.cases.push(mk("v3_div_assign", q3.clone(), { let mut r = Vector3::new(t(0), t(1), t(2)); r /= s; o(vec![r.x, r.y, r.z]) }));
            $ctx.cases.push(mk("v3_div_s", q3, { let r = Vector3::new(t(0), t(1), t(2)) / s; o(vec![r.x, r.y, r.z]) }));
            let q2: Vec<BigRat> = vec![qi[0].clone(), qi[1].clone(), qi[4].clone()];
            $ctx.cases.push(mk("v2_div_assign", q2, { let mut r = Vector2::new(t(0), t(1)); r /= s; o(vec![r.x, r.y]) }));
            let q1: Vec<BigRat> = vec![qi[0].clone(), qi[4].clone()];
            $ctx.cases.push(mk("v1_div_assign", q1, { let mut r = Vector1::new(t(0)); r /= s; o(vec![r.x]) }));
        }
    }};
}

pub fn cases(ctx: &mut Ctx) {
    float_exact_cases!(ctx, f64);
    float_exact_cases!(ctx, f32);
    dim_cases!(ctx, 1, Vector1, v1, "v1");
    dim_cases!(ctx, 2, Vector2, v2, "v2");
    dim_cases!(ctx, 3, Vector3, v3, "v3");
    dim_cases!(ctx, 4, Vector4, v4, "v4");
    for _ in 0..48 * ctx.scale {
        let i = ctx.generic(6);
        ctx.case("v3_cross", "generic", &i, &|| (), &|x| v3(&x[..3]).cross(v3(&x[3..])));
        ctx.case("v2_perp_dot", "generic", &i[..4], &|| (), &|x| v2(&x[..2]).perp_dot(v2(&x[2..])));
    }
    ctx.case("v2_unit_y", "const", &[], &|| (), &|_| Vector2::<Xq>::unit_y());
    ctx.case("v3_unit_y", "const", &[], &|| (), &|_| Vector3::<Xq>::unit_y());
    ctx.case("v3_unit_z", "const", &[], &|| (), &|_| Vector3::<Xq>::unit_z());
    ctx.case("v4_unit_y", "const", &[], &|| (), &|_| Vector4::<Xq>::unit_y());
    ctx.case("v4_unit_z", "const", &[], &|| (), &|_| Vector4::<Xq>::unit_z());
    ctx.case("v4_unit_w", "const", &[], &|| (), &|_| Vector4::<Xq>::unit_w());
    int_cases!(ctx, i32, 40, false);
    int_cases!(ctx, i64, 1000, false);
    int_cases!(ctx, u8, 9, true);
    int_cases!(ctx, i16, 30, false);
}

fn chk(ok: bool, what: &str) -> Result<(), String> {
    if ok { Ok(()) } else { Err(what.to_string()) }
}

macro_rules! dim_preds {
    ($ctx:ident, $n:expr, $V:ident, $mk:ident, $pfx:expr) => {{
        let n: usize = $n;
        for _ in 0..40 * $ctx.scale {
            let i = $ctx.generic(3 * n + 2);
            let nm = |s: &str| format!("{}:{}", $pfx, s);
            $ctx.pred(&nm("componentwise"), &i, &|| (), &|x| {
                let (a, b, s) = ($mk(&x[..n]), $mk(&x[n..2 * n]), x[3 * n]);
                for k in 0..n {
                    chk((a + b)[k] == a[k] + b[k], "add")?;
                    chk((a - b)[k] == a[k] - b[k], "sub")?;
                    chk((-a)[k] == -a[k], "neg")?;
                    chk((a * s)[k] == a[k] * s, "mul_s")?;
                    chk((a / s)[k] == a[k] / s, "div_s")?;
                    chk((a % s)[k] == a[k] % s, "rem_s")?;
                    chk(a.add_element_wise(b)[k] == a[k] + b[k], "add_ew")?;
                    chk(a.sub_element_wise(b)[k] == a[k] - b[k], "sub_ew")?;
                    chk(a.mul_element_wise(b)[k] == a[k] * b[k], "mul_ew")?;
                    chk(a.div_element_wise(b)[k] == a[k] / b[k], "div_ew")?;
                    chk(a.rem_element_wise(b)[k] == a[k] % b[k], "rem_ew")?;
                    chk(a.add_element_wise(s)[k] == a[k] + s, "add_ews")?;
                    chk(a.sub_element_wise(s)[k] == a[k] - s, "sub_ews")?;
                    chk(a.mul_element_wise(s)[k] == a[k] * s, "mul_ews")?;
                    chk(a.div_element_wise(s)[k] == a[k] / s, "div_ews")?;
                    chk(a.rem_element_wise(s)[k] == a[k] % s, "rem_ews")?;
                    chk($V::<Xq>::zero()[k] == Xq::q(0, 1), "zero")?;
                    chk($V::from_value(s)[k] == s, "from_value")?;
                }
                chk(a + $V::zero() == a && $V::zero() + a == a, "zero identity")
            });
            $ctx.pred(&nm("dot"), &i, &|| (), &|x| {
                let (a, b, c, s, t) = ($mk(&x[..n]), $mk(&x[n..2 * n]), $mk(&x[2 * n..3 * n]), x[3 * n], x[3 * n + 1]);
                let mut d = Xq::q(0, 1);
                let mut su = Xq::q(0, 1);
                let mut pr = Xq::q(1, 1);
                for k in 0..n { d = d + a[k] * b[k]; su = su + a[k]; pr = pr * a[k]; }
                chk(a.dot(b) == d, "dot = sum of products")?;
                chk(a.dot(b) == b.dot(a), "dot symmetric")?;
                chk((a * s + b * t).dot(c) == s * a.dot(c) + t * b.dot(c), "dot bilinear (left)")?;
                chk(c.dot(a * s + b * t) == s * c.dot(a) + t * c.dot(b), "dot bilinear (right)")?;
                chk(a.magnitude2() == a.dot(a), "magnitude2 = dot(v,v)")?;
                chk(a.sum() == su, "sum folds all components")?;
                chk(a.product() == pr, "product folds all components")
            });
        }
    }};
}

pub fn preds(ctx: &mut Ctx) {
    dim_preds!(ctx, 1, Vector1, v1, "v1");
    dim_preds!(ctx, 2, Vector2, v2, "v2");
    dim_preds!(ctx, 3, Vector3, v3, "v3");
    dim_preds!(ctx, 4, Vector4, v4, "v4");
    for _ in 0..60 * ctx.scale {
        let i = ctx.generic(9);
        ctx.pred("v3:cross", &i, &|| (), &|x| {
            let (u, v, w) = (v3(&x[..3]), v3(&x[3..6]), v3(&x[6..9]));
            let c = u.cross(v);
            chk(c == -(v.cross(u)), "cross anticommutative")?;
            chk(c.dot(u) == Xq::q(0, 1) && c.dot(v) == Xq::q(0, 1), "cross orthogonal to both arguments")?;
            chk(c.magnitude2() == u.magnitude2() * v.magnitude2() - u.dot(v) * u.dot(v), "Lagrange identity")?;
            chk(u.cross(v.cross(w)) == v * u.dot(w) - w * u.dot(v), "vector triple product")
        });
        ctx.pred("v2:perp_dot", &i[..4], &|| (), &|x| {
            let (u, v) = (v2(&x[..2]), v2(&x[2..4]));
            chk(u.perp_dot(v) == u.x * v.y - u.y * v.x, "perp_dot formula")
        });
    }
}
